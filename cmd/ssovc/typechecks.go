package main

import (
	"reflect"
	"encoding/json"
	"fmt"
	"go/constant"
	"go/types"
	"os"
	"path/filepath"
	"sort"
	"strings"

	"golang.org/x/tools/go/ssa"
	"golang.org/x/tools/go/ssa/ssautil"
)

// Obligations that are decided without SMT: wiring terms over the SSA of constructor functions
// (which middleware wraps which handler, in which order) and type/provenance facts (go/types).
// They are reported with back end "go/ssa" or "go/types".

type wiringSpec struct {
	Function string            `json:"function"` // short ssa name
	Routes   map[string]string `json:"routes"`   // path -> expected handler term (calls of <register>)
	Register string            `json:"register"` // method name that registers a route, e.g. HandleFunc
	Returns  string            `json:"returns"`  // expected term of the returned value ("" = unchecked)
	Stores   map[string]string `json:"stores"`   // field-address term -> expected stored term
	Calls    map[string]string `json:"calls"`    // callee name -> expected term(s) of its call sites (" | "-joined, sorted)
	Props    []string          `json:"props"`
}

func runTypeCheck(eng *Engine, name string) []*Obligation {
	switch {
	case strings.HasPrefix(name, "wiring:"):
		return wiringObligations(eng, strings.TrimPrefix(name, "wiring:"))
	case strings.HasPrefix(name, "itercall:"):
		return iterCallObligations(eng, strings.TrimPrefix(name, "itercall:"))
	case strings.HasPrefix(name, "iterfresh:"):
		return iterFreshObligations(eng, strings.TrimPrefix(name, "iterfresh:"))
	case strings.HasPrefix(name, "guarded:"):
		return guardedClosureObligations(eng, strings.TrimPrefix(name, "guarded:"))
	case strings.HasPrefix(name, "callers:"):
		return callerObligations(eng, strings.TrimPrefix(name, "callers:"))
	case strings.HasPrefix(name, "assumed:"):
		return assumedContractObligations(eng, strings.TrimPrefix(name, "assumed:"))
	case strings.HasPrefix(name, "fieldaccess:"):
		return fieldAccessObligations(eng, strings.TrimPrefix(name, "fieldaccess:"), false)
	case strings.HasPrefix(name, "fieldwrites:"):
		return fieldAccessObligations(eng, strings.TrimPrefix(name, "fieldwrites:"), true)
	case strings.HasPrefix(name, "configkeys:"):
		return configKeyObligations(eng, strings.TrimPrefix(name, "configkeys:"))
	case strings.HasPrefix(name, "jsonfields:"):
		return jsonFieldObligations(eng, strings.TrimPrefix(name, "jsonfields:"))
	case strings.HasPrefix(name, "implementors:"):
		return implementorObligations(eng, strings.TrimPrefix(name, "implementors:"))
	case strings.HasPrefix(name, "templates:"):
		return templateObligations(eng, strings.TrimPrefix(name, "templates:"))
	}
	return []*Obligation{{Name: "typecheck/" + name, Kind: "typecheck", Status: "failed", Clause: "unknown type-level check"}}
}

func mkOb(name, kind, clause string, ok bool, detail string, props []string) *Obligation {
	o := &Obligation{Name: name, Kind: kind, Clause: clause, Props: props, Solvers: map[string]int{}}
	vc := &VC{Ob: name, Kind: kind, Clause: clause, Raw: detail}
	if ok {
		o.Status = "discharged"
		vc.Verdict, vc.Solver = "unsat", "go/ssa"
		o.Solvers["go/ssa"] = 1
	} else {
		o.Status = "failed"
		vc.Verdict, vc.Solver = "mismatch", "go/ssa"
		o.Failed = []*VC{vc}
	}
	o.VCs = []*VC{vc}
	return o
}

func wiringObligations(eng *Engine, key string) []*Obligation {
	b, err := os.ReadFile(filepath.Join(verifDir(), "spec", "wiring.json"))
	if err != nil {
		return []*Obligation{mkOb("wiring/"+key, "wiring", "spec/wiring.json readable", false, err.Error(), nil)}
	}
	var all map[string]*wiringSpec
	if err := json.Unmarshal(b, &all); err != nil {
		return []*Obligation{mkOb("wiring/"+key, "wiring", "spec/wiring.json parses", false, err.Error(), nil)}
	}
	ws, ok := all[key]
	if !ok {
		return []*Obligation{mkOb("wiring/"+key, "wiring", "wiring spec exists", false, "no entry "+key, nil)}
	}
	fn := eng.fnByShort(ws.Function)
	if fn == nil || fn.Blocks == nil {
		return []*Obligation{mkOb("wiring/"+key, "wiring", "function exists", false, "no function "+ws.Function, nil)}
	}
	tb := &termBuilder{fn: fn, seen: map[ssa.Value]bool{}}
	var out []*Obligation
	got := map[string]string{}
	for _, blk := range fn.Blocks {
		for _, in := range blk.Instrs {
			c, ok := in.(*ssa.Call)
			if !ok || ws.Register == "" {
				continue
			}
			if callSiteName(&c.Call) != ws.Register {
				continue
			}
			args := c.Call.Args
			if !c.Call.IsInvoke() && c.Call.Signature().Recv() != nil {
				args = args[1:]
			}
			if len(args) < 2 {
				continue
			}
			path := strings.Trim(tb.term(args[0]), `"`)
			if prev, dup := got[path]; dup {
				// the same path registered again (an earlier registration shadows a later one in gorilla/mux)
				got[path] = prev + " | " + tb.term(args[1])
			} else {
				got[path] = tb.term(args[1])
			}
		}
	}
	var paths []string
	for p := range ws.Routes {
		paths = append(paths, p)
	}
	sort.Strings(paths)
	for _, p := range paths {
		want := ws.Routes[p]
		g, ok := got[p]
		name := fmt.Sprintf("%s/wiring[%s]", ws.Function, p)
		clause := fmt.Sprintf("route %s is registered as %s", p, want)
		if !ok {
			out = append(out, mkOb(name, "wiring", clause, false, "route not registered", ws.Props))
			continue
		}
		out = append(out, mkOb(name, "wiring", clause, g == want, "found: "+g, ws.Props))
	}
	// no unexpected routes (a new route must be added to the spec deliberately)
	var extra []string
	for p := range got {
		if _, ok := ws.Routes[p]; !ok {
			extra = append(extra, p+" -> "+got[p])
		}
	}
	sort.Strings(extra)
	if ws.Register != "" {
		out = append(out, mkOb(ws.Function+"/wiring[no-unlisted-routes]", "wiring", "every registered route is listed in the wiring spec", len(extra) == 0, strings.Join(extra, "; "), ws.Props))
	}
	if len(ws.Stores) > 0 {
		gotS := map[string][]string{}
		for _, blk := range fn.Blocks {
			for _, in := range blk.Instrs {
				if st, ok := in.(*ssa.Store); ok {
					if _, isF := st.Addr.(*ssa.FieldAddr); isF {
						k := tb.term(st.Addr)
						gotS[k] = append(gotS[k], tb.term(st.Val))
					}
				}
			}
		}
		var keys []string
		for k := range ws.Stores {
			keys = append(keys, k)
		}
		sort.Strings(keys)
		for _, k := range keys {
			vs := gotS[k]
			sort.Strings(vs)
			g := strings.Join(uniq(vs), " | ")
			if len(vs) == 0 {
				var av []string
				for k2 := range gotS {
					av = append(av, k2)
				}
				sort.Strings(av)
				g = "(no such store; stores: " + strings.Join(av, " ; ") + ")"
			}
			out = append(out, mkOb(fmt.Sprintf("%s/wiring[store %s]", ws.Function, k), "wiring", fmt.Sprintf("%s is assigned %s", k, ws.Stores[k]), g == ws.Stores[k], "found: "+g, ws.Props))
		}
	}
	if len(ws.Calls) > 0 {
		gotC := map[string][]string{}
		for _, blk := range fn.Blocks {
			for _, in := range blk.Instrs {
				if ci, ok := in.(ssa.CallInstruction); ok {
					n := callSiteName(ci.Common())
					if _, want := ws.Calls[n]; want {
						gotC[n] = append(gotC[n], tb.callTerm(ci.Common()))
					}
				}
			}
		}
		var keys []string
		for k := range ws.Calls {
			keys = append(keys, k)
		}
		sort.Strings(keys)
		for _, k := range keys {
			vs := gotC[k]
			sort.Strings(vs)
			g := strings.Join(uniq(vs), " | ")
			out = append(out, mkOb(fmt.Sprintf("%s/wiring[call %s]", ws.Function, k), "wiring", fmt.Sprintf("%s is called as %s", k, ws.Calls[k]), g == ws.Calls[k], "found: "+g, ws.Props))
		}
	}
	if ws.Returns != "" {
		var rets []string
		for _, blk := range fn.Blocks {
			for _, in := range blk.Instrs {
				if r, ok := in.(*ssa.Return); ok && len(r.Results) > 0 {
					rets = append(rets, tb.term(r.Results[0]))
				}
			}
		}
		sort.Strings(rets)
		rets = uniq(rets)
		g := strings.Join(rets, " | ")
		out = append(out, mkOb(ws.Function+"/wiring[returns]", "wiring", "returns "+ws.Returns, g == ws.Returns, "found: "+g, ws.Props))
	}
	return out
}

func uniq(s []string) []string {
	var out []string
	for i, x := range s {
		if i == 0 || x != s[i-1] {
			out = append(out, x)
		}
	}
	return out
}

// termBuilder renders the construction of a value as a term over function names.
type termBuilder struct {
	fn   *ssa.Function
	seen map[ssa.Value]bool
}

func (tb *termBuilder) term(v ssa.Value) string {
	if tb.seen[v] {
		return "<cycle>"
	}
	tb.seen[v] = true
	defer delete(tb.seen, v)
	switch x := v.(type) {
	case *ssa.Const:
		if x.Value == nil {
			return "nil"
		}
		if x.Value.Kind() == constant.String {
			return fmt.Sprintf("%q", constant.StringVal(x.Value))
		}
		return x.Value.ExactString()
	case *ssa.Parameter:
		return x.Name()
	case *ssa.FreeVar:
		return x.Name()
	case *ssa.Function:
		return x.Name()
	case *ssa.Global:
		return x.Name()
	case *ssa.ChangeType:
		return tb.term(x.X)
	case *ssa.ChangeInterface:
		return tb.term(x.X)
	case *ssa.MakeInterface:
		return tb.term(x.X)
	case *ssa.MakeClosure:
		fn := x.Fn.(*ssa.Function)
		n := strings.TrimSuffix(fn.Name(), "$bound")
		if strings.HasSuffix(fn.Name(), "$bound") {
			// a method value: the receiver is shown unless it is the enclosing method's own receiver
			if len(x.Bindings) == 1 {
				if pr, ok := x.Bindings[0].(*ssa.Parameter); !ok || tb.fn.Signature.Recv() == nil || len(tb.fn.Params) == 0 || pr != tb.fn.Params[0] {
					return n + "{" + tb.term(x.Bindings[0]) + "}"
				}
			}
			return n
		}
		var bs []string
		for _, b := range x.Bindings {
			bs = append(bs, tb.term(b))
		}
		return n + "{" + strings.Join(bs, ",") + "}"
	case *ssa.Phi:
		var es []string
		for _, e := range x.Edges {
			es = append(es, tb.term(e))
		}
		sort.Strings(es)
		es = uniq(es)
		return "either(" + strings.Join(es, "|") + ")"
	case *ssa.Call:
		return tb.callTerm(&x.Call)
	case *ssa.Extract:
		return tb.term(x.Tuple) + fmt.Sprintf(".%d", x.Index)
	case *ssa.UnOp:
		// load: of a field, of a local, of a global
		switch a := x.X.(type) {
		case *ssa.FieldAddr:
			st := a.X.Type().Underlying().(*types.Pointer).Elem().Underlying().(*types.Struct)
			return tb.term(a.X) + "." + st.Field(a.Field).Name()
		case *ssa.Alloc:
			return tb.allocTerm(a)
		case *ssa.Global:
			return a.Name()
		case *ssa.FreeVar:
			return a.Name()
		}
		return "load(" + tb.term(x.X) + ")"
	case *ssa.Alloc:
		if x.Comment != "" {
			return "&" + x.Comment
		}
		return "new"
	case *ssa.Slice:
		// varargs: the elements stored into the backing array
		if a, ok := x.X.(*ssa.Alloc); ok {
			return "[" + strings.Join(tb.arrayElems(a), ",") + "]"
		}
		return tb.term(x.X)
	case *ssa.FieldAddr:
		st := x.X.Type().Underlying().(*types.Pointer).Elem().Underlying().(*types.Struct)
		return "&" + tb.term(x.X) + "." + st.Field(x.Field).Name()
	}
	return fmt.Sprintf("?%T", v)
}

// allocTerm: the value of a local variable cell, when it is assigned exactly once.
func (tb *termBuilder) allocTerm(a *ssa.Alloc) string {
	var stores []*ssa.Store
	for _, r := range *a.Referrers() {
		if s, ok := r.(*ssa.Store); ok && s.Addr == a {
			stores = append(stores, s)
		}
	}
	if len(stores) == 1 {
		return tb.term(stores[0].Val)
	}
	var es []string
	for _, s := range stores {
		es = append(es, tb.term(s.Val))
	}
	sort.Strings(es)
	return "either(" + strings.Join(uniq(es), "|") + ")"
}

func (tb *termBuilder) arrayElems(a *ssa.Alloc) []string {
	type kv struct {
		i int64
		s string
	}
	var els []kv
	for _, r := range *a.Referrers() {
		ia, ok := r.(*ssa.IndexAddr)
		if !ok {
			continue
		}
		c, ok := ia.Index.(*ssa.Const)
		if !ok {
			continue
		}
		idx, _ := constant.Int64Val(c.Value)
		for _, r2 := range *ia.Referrers() {
			if s, ok := r2.(*ssa.Store); ok {
				els = append(els, kv{idx, tb.term(s.Val)})
			}
		}
	}
	sort.Slice(els, func(i, j int) bool { return els[i].i < els[j].i })
	var out []string
	for _, e := range els {
		out = append(out, e.s)
	}
	return out
}

func (tb *termBuilder) callTerm(c *ssa.CallCommon) string {
	name := callSiteName(c)
	args := c.Args
	if !c.IsInvoke() && c.Signature().Recv() != nil && len(args) > 0 {
		args = args[1:] // receiver
	}
	if fn := c.StaticCallee(); fn != nil && !strings.HasPrefix(fnPkgPath(fn), modPrefix) && fn.Pkg != nil {
		name = fn.Pkg.Pkg.Name() + "." + name
	}
	var as []string
	for _, a := range args {
		t := tb.term(a)
		// flatten varargs lists
		if strings.HasPrefix(t, "[") && strings.HasSuffix(t, "]") {
			if t != "[]" {
				as = append(as, strings.Split(t[1:len(t)-1], ",")...)
			}
			continue
		}
		as = append(as, t)
	}
	return name + "(" + strings.Join(as, ",") + ")"
}

func templateObligations(eng *Engine, key string) []*Obligation { return templateChecks(eng, key) }

// callerObligations: "callee=caller1,caller2[@props]" — every call site of callee (a static callee's full name, or an
// interface method's full name for invoke sites) inside the sso module lies in one of the listed functions.
// This is the encapsulation fact a rely/guarantee argument about a private data structure needs.
func callerObligations(eng *Engine, spec string) []*Obligation {
	var props []string
	if j := strings.Index(spec, "@"); j >= 0 {
		props = strings.Split(spec[j+1:], ",")
		spec = spec[:j]
	}
	j := strings.Index(spec, "=")
	if j < 0 {
		return []*Obligation{mkOb("callers["+spec+"]", "callers", "callers:<callee>=<callers>", false, "malformed", props)}
	}
	callee, allowed := spec[:j], map[string]bool{}
	for _, a := range strings.Split(spec[j+1:], ",") {
		allowed[a] = true
	}
	var fns []*ssa.Function
	for fn := range ssautil.AllFunctions(eng.prog) {
		if strings.HasPrefix(fnPkgPath(fn), modPrefix) && fn.Blocks != nil {
			fns = append(fns, fn)
		}
	}
	sort.Slice(fns, func(i, j int) bool { return fns[i].String() < fns[j].String() })
	n := 0
	var bad []string
	for _, fn := range fns {
		for _, b := range fn.Blocks {
			for _, in := range b.Instrs {
				ci, ok := in.(ssa.CallInstruction)
				if !ok {
					continue
				}
				cc := ci.Common()
				name := ""
				if cc.IsInvoke() {
					name = cc.Method.FullName()
				} else if sc := cc.StaticCallee(); sc != nil {
					name = sc.String()
				}
				if name != callee && mangleShort(name) != callee {
					continue
				}
				n++
				if !allowed[shortFn(fn)] {
					bad = append(bad, shortFn(fn))
				}
			}
		}
	}
	sort.Strings(bad)
	return []*Obligation{
		mkOb("callers["+callee+"]", "callers", "every call of "+callee+" in the module is in: "+spec[j+1:], len(bad) == 0, "other callers: "+strings.Join(uniq(bad), ", "), props),
		mkOb("callers["+callee+"]/found", "callers", "at least one call site of "+callee+" exists (vacuity guard)", n > 0, fmt.Sprintf("%d sites", n), props),
	}
}

func mangleShort(s string) string { return strings.ReplaceAll(s, modPrefix+"internal/", "") }

// guardedClosureObligations: "closure=callee[@props]" — the function literal `closure` (ssa name, e.g. F$1) is only ever
// handed to `callee` as an argument: it is never called directly, stored, or passed elsewhere. With callee =
// the circuit breaker's Call this says every directory request the literal makes goes through the breaker.
func guardedClosureObligations(eng *Engine, spec string) []*Obligation {
	var props []string
	if j := strings.Index(spec, "@"); j >= 0 {
		props = strings.Split(spec[j+1:], ",")
		spec = spec[:j]
	}
	j := strings.Index(spec, "=")
	if j < 0 {
		return []*Obligation{mkOb("guarded["+spec+"]", "guarded", "guarded:<closure>=<callee>", false, "malformed", props)}
	}
	clo, callee := spec[:j], spec[j+1:]
	fn := eng.fnByShort(clo)
	name := "guarded[" + clo + "]"
	if fn == nil || fn.Parent() == nil {
		return []*Obligation{mkOb(name, "guarded", "the function literal "+clo+" exists", false, "no such function literal", props)}
	}
	n, bad := 0, ""
	for _, b := range fn.Parent().Blocks {
		for _, in := range b.Instrs {
			mc, ok := in.(*ssa.MakeClosure)
			if !ok || mc.Fn != ssa.Value(fn) {
				continue
			}
			n++
			var walk func(v ssa.Value, depth int)
			walk = func(v ssa.Value, depth int) {
				if depth > 4 || v.Referrers() == nil {
					return
				}
				for _, r := range *v.Referrers() {
					switch u := r.(type) {
					case *ssa.DebugRef:
					case *ssa.ChangeType:
						walk(u, depth+1)
					case *ssa.Phi:
						walk(u, depth+1)
					case ssa.CallInstruction:
						cc := u.Common()
						if cc.Value == v {
							bad = "called directly in " + shortFn(fn.Parent())
							continue
						}
						cn := ""
						if sc := cc.StaticCallee(); sc != nil {
							cn = mangleShort(sc.String())
						} else if cc.IsInvoke() {
							cn = mangleShort(cc.Method.FullName())
						}
						if cn != callee {
							bad = "passed to " + cn
						}
					default:
						bad = fmt.Sprintf("used by %T", r)
					}
				}
			}
			walk(mc, 0)
		}
	}
	return []*Obligation{mkOb(name, "guarded", "the function literal "+clo+" is only ever passed to "+callee, n > 0 && bad == "", bad+fmt.Sprintf(" (%d creation sites)", n), props)}
}

// iterFreshObligations: "function:callee:argIndex[@props]" — at every call of `callee` inside a loop of `function`,
// the slice passed as argument argIndex is built (through appends, re-slices and phis) only from backing arrays
// allocated inside that loop's body: each iteration hands over its own array, none is shared with another
// iteration. (The engine's memory model has no slice capacity, so it cannot see such sharing by itself.)
func iterFreshObligations(eng *Engine, spec string) []*Obligation {
	var props []string
	if j := strings.Index(spec, "@"); j >= 0 {
		props = strings.Split(spec[j+1:], ",")
		spec = spec[:j]
	}
	parts := strings.Split(spec, ":")
	name := "iterfresh[" + spec + "]"
	if len(parts) != 3 {
		return []*Obligation{mkOb(name, "iterfresh", "iterfresh:<function>:<callee>:<arg>", false, "malformed", props)}
	}
	fn := eng.fnByShort(parts[0])
	argIdx := 0
	fmt.Sscanf(parts[2], "%d", &argIdx)
	if fn == nil || fn.Blocks == nil {
		return []*Obligation{mkOb(name, "iterfresh", "function exists", false, "no function "+parts[0], props)}
	}
	li := eng.loops(fn)
	n, bad := 0, ""
	for _, b := range fn.Blocks {
		for _, in := range b.Instrs {
			ci, ok := in.(ssa.CallInstruction)
			if !ok || callSiteName(ci.Common()) != parts[1] {
				continue
			}
			// innermost loop containing the call
			loop := 0
			for k, body := range li.bodies {
				if body[b] && (loop == 0 || len(body) < len(li.bodies[loop])) {
					loop = k
				}
			}
			if loop == 0 {
				continue
			}
			n++
			args := ci.Common().Args
			if !ci.Common().IsInvoke() && ci.Common().Signature().Recv() != nil {
				args = args[1:]
			}
			if argIdx >= len(args) {
				bad = "no such argument"
				continue
			}
			seen := map[ssa.Value]bool{}
			var walk func(v ssa.Value)
			walk = func(v ssa.Value) {
				if seen[v] {
					return
				}
				seen[v] = true
				switch x := v.(type) {
				case *ssa.Phi:
					for _, e := range x.Edges {
						walk(e)
					}
				case *ssa.Slice:
					walk(x.X)
				case *ssa.Call:
					if bi, ok := x.Call.Value.(*ssa.Builtin); ok && bi.Name() == "append" {
						walk(x.Call.Args[0])
						return
					}
					bad = "built from the result of a call: " + callSiteName(&x.Call)
				case *ssa.Alloc:
					if !li.bodies[loop][x.Block()] {
						bad = "backing array allocated outside the loop (" + x.Comment + ")"
					}
				case *ssa.MakeSlice:
					if !li.bodies[loop][x.Block()] {
						bad = "backing array made outside the loop"
					}
				case *ssa.Const:
				default:
					bad = fmt.Sprintf("built from %T", v)
				}
			}
			walk(args[argIdx])
		}
	}
	return []*Obligation{mkOb(name, "iterfresh", fmt.Sprintf("the slice handed to %s in a loop of %s is built only from arrays allocated in that iteration", parts[1], parts[0]), n > 0 && bad == "", fmt.Sprintf("%s (%d call sites in loops)", bad, n), props)}
}

// iterCallObligations: "function:callee:argIndex:producer[@props]" — at every call of `callee` inside a loop of
// `function`, argument argIndex is the result of a call of `producer` made in the same iteration (through
// interface conversions and result extraction only): never a value kept from an earlier iteration, a map or a phi.
func iterCallObligations(eng *Engine, spec string) []*Obligation {
	var props []string
	if j := strings.Index(spec, "@"); j >= 0 {
		props = strings.Split(spec[j+1:], ",")
		spec = spec[:j]
	}
	parts := strings.Split(spec, ":")
	name := "itercall[" + spec + "]"
	if len(parts) != 4 {
		return []*Obligation{mkOb(name, "itercall", "itercall:<function>:<callee>:<arg>:<producer>", false, "malformed", props)}
	}
	fn := eng.fnByShort(parts[0])
	argIdx := 0
	fmt.Sscanf(parts[2], "%d", &argIdx)
	if fn == nil || fn.Blocks == nil {
		return []*Obligation{mkOb(name, "itercall", "function exists", false, "no function "+parts[0], props)}
	}
	li := eng.loops(fn)
	n, bad := 0, ""
	for _, b := range fn.Blocks {
		for _, in := range b.Instrs {
			ci, ok := in.(ssa.CallInstruction)
			if !ok || callSiteName(ci.Common()) != parts[1] {
				continue
			}
			loop := 0
			for k, body := range li.bodies {
				if body[b] && (loop == 0 || len(body) < len(li.bodies[loop])) {
					loop = k
				}
			}
			if loop == 0 {
				continue
			}
			n++
			args := ci.Common().Args
			if !ci.Common().IsInvoke() && ci.Common().Signature().Recv() != nil {
				args = args[1:]
			}
			if argIdx >= len(args) {
				bad = "no such argument"
				continue
			}
			v := args[argIdx]
			for depth := 0; depth < 6; depth++ {
				switch x := v.(type) {
				case *ssa.ChangeInterface:
					v = x.X
					continue
				case *ssa.MakeInterface:
					v = x.X
					continue
				case *ssa.ChangeType:
					v = x.X
					continue
				case *ssa.Extract:
					v = x.Tuple
					continue
				}
				break
			}
			c, ok := v.(*ssa.Call)
			switch {
			case !ok:
				bad = fmt.Sprintf("the argument is a %T, not the result of a call", v)
			case callSiteName(&c.Call) != parts[3]:
				bad = "the argument is the result of " + callSiteName(&c.Call)
			case !li.bodies[loop][c.Block()]:
				bad = "the producing call is outside the loop"
			}
		}
	}
	return []*Obligation{mkOb(name, "itercall", fmt.Sprintf("what %s is handed in a loop of %s is the result of %s called in that iteration", parts[1], parts[0], parts[3]), n > 0 && bad == "", fmt.Sprintf("%s (%d call sites in loops)", bad, n), props)}
}

// implementorObligations: "iface=type1,type2[@props]" — the contract of an interface method is what callers
// assume at a dynamic call; it is established only for the listed implementations. Every conversion of a
// concrete value to the interface (ssa.MakeInterface) in non-test sso code must be of a listed type, so a new
// dynamic type (say a pointer where the code type-asserts the value type) cannot flow into the interface
// without the contract being re-established for it.
func implementorObligations(eng *Engine, spec string) []*Obligation {
	var props []string
	if j := strings.Index(spec, "@"); j >= 0 {
		props = strings.Split(spec[j+1:], ",")
		spec = spec[:j]
	}
	j := strings.Index(spec, "=")
	if j < 0 {
		return []*Obligation{mkOb("implementors["+spec+"]", "implementors", "implementors:<interface>=<types>", false, "malformed", props)}
	}
	iface, allowed := spec[:j], map[string]bool{}
	for _, a := range strings.Split(spec[j+1:], ",") {
		allowed[a] = true
	}
	var fns []*ssa.Function
	for fn := range ssautil.AllFunctions(eng.prog) {
		if strings.HasPrefix(fnPkgPath(fn), modPrefix) && fn.Blocks != nil {
			fns = append(fns, fn)
		}
	}
	sort.Slice(fns, func(i, j int) bool { return fns[i].String() < fns[j].String() })
	n := 0
	var bad []string
	seen := map[string]bool{}
	for _, fn := range fns {
		for _, b := range fn.Blocks {
			for _, in := range b.Instrs {
				mi, ok := in.(*ssa.MakeInterface)
				if !ok || mangleShort(mi.Type().String()) != iface {
					continue
				}
				n++
				t := mangleShort(mi.X.Type().String())
				seen[t] = true
				if !allowed[t] {
					bad = append(bad, t+" (in "+shortFn(fn)+")")
				}
			}
		}
	}
	sort.Strings(bad)
	var missing []string
	for a := range allowed {
		if !seen[a] {
			missing = append(missing, a)
		}
	}
	sort.Strings(missing)
	return []*Obligation{
		mkOb("implementors["+iface+"]", "implementors", "every value converted to "+iface+" in the module has one of the types the interface contract is established for: "+spec[j+1:], len(bad) == 0, "other dynamic types: "+strings.Join(uniq(bad), ", "), props),
		mkOb("implementors["+iface+"]/found", "implementors", "each listed implementation of "+iface+" is converted to it somewhere (vacuity guard)", n > 0 && len(missing) == 0, fmt.Sprintf("%d conversions; never converted: %s", n, strings.Join(missing, ", ")), props),
	}
}

// fieldAccessObligations: "pkg.Type.field=fn1,fn2[@props]" — every access (address or value) of the field in
// non-test sso code lies in one of the listed functions. With Type.field = OAuthProxy.handler this says the
// upstream handler is reachable only through Proxy (which authenticates first or scrubs the identity headers).
// With writesOnly ("fieldwrites:") only stores through the field's address count: the field is assigned in the
// listed functions and nowhere else (composite literals of the struct type assign through a FieldAddr too).
func fieldAccessObligations(eng *Engine, spec string, writesOnly bool) []*Obligation {
	var props []string
	if j := strings.Index(spec, "@"); j >= 0 {
		props = strings.Split(spec[j+1:], ",")
		spec = spec[:j]
	}
	j := strings.Index(spec, "=")
	if j < 0 || strings.LastIndex(spec[:j], ".") < 0 {
		return []*Obligation{mkOb("fieldaccess["+spec+"]", "fieldaccess", "fieldaccess:<pkg.Type.field>=<functions>", false, "malformed", props)}
	}
	target, allowed := spec[:j], map[string]bool{}
	for _, a := range strings.Split(spec[j+1:], ",") {
		allowed[a] = true
	}
	k := strings.LastIndex(target, ".")
	typ, field := target[:k], target[k+1:]
	var fns []*ssa.Function
	for fn := range ssautil.AllFunctions(eng.prog) {
		if strings.HasPrefix(fnPkgPath(fn), modPrefix) && fn.Blocks != nil {
			fns = append(fns, fn)
		}
	}
	sort.Slice(fns, func(i, j int) bool { return fns[i].String() < fns[j].String() })
	n := 0
	var bad []string
	match := func(t types.Type, idx int) bool {
		if p, ok := t.Underlying().(*types.Pointer); ok {
			t = p.Elem()
		}
		if mangleShort(t.String()) != typ {
			return false
		}
		st, ok := t.Underlying().(*types.Struct)
		return ok && idx < st.NumFields() && st.Field(idx).Name() == field
	}
	for _, fn := range fns {
		for _, b := range fn.Blocks {
			for _, in := range b.Instrs {
				hit := false
				switch t := in.(type) {
				case *ssa.FieldAddr:
					hit = match(t.X.Type(), t.Field)
					if hit && writesOnly {
						hit = false
						for _, r := range *t.Referrers() {
							if st, ok := r.(*ssa.Store); ok && st.Addr == t {
								hit = true
							}
						}
					}
				case *ssa.Field:
					hit = !writesOnly && match(t.X.Type(), t.Field)
				}
				if !hit {
					continue
				}
				n++
				if !allowed[shortFn(fn)] {
					bad = append(bad, shortFn(fn))
				}
			}
		}
	}
	sort.Strings(bad)
	kind, what := "fieldaccess", "access"
	if writesOnly {
		kind, what = "fieldwrites", "assignment"
	}
	return []*Obligation{
		mkOb(kind+"["+target+"]", kind, "every "+what+" of "+target+" in the module is in: "+spec[j+1:], len(bad) == 0, "other "+what+"s in: "+strings.Join(uniq(bad), ", "), props),
		mkOb(kind+"["+target+"]/found", kind, "the field "+target+" has such an "+what+" somewhere (vacuity guard)", n > 0, fmt.Sprintf("%d sites", n), props),
	}
}

// configKeyObligations: "pkg.Type[@props]" — the configuration keys a struct decodes from (mapstructure: the
// tag's name, else the lower-cased field name; a tag under any other key is ignored by the decoder) are the
// ones recorded in spec/configkeys.json. Documented environment variables (SESSION_TTL_GRACEPERIOD ...) reach
// their fields only through these keys; the decoder itself (viper/mapstructure) is not verified.
func configKeyObligations(eng *Engine, spec string) []*Obligation {
	var props []string
	if j := strings.Index(spec, "@"); j >= 0 {
		props = strings.Split(spec[j+1:], ",")
		spec = spec[:j]
	}
	name := "configkeys[" + spec + "]"
	b, err := os.ReadFile(filepath.Join(verifDir(), "spec", "configkeys.json"))
	if err != nil {
		return []*Obligation{mkOb(name, "configkeys", "spec/configkeys.json readable", false, err.Error(), props)}
	}
	var all map[string]map[string]string
	if err := json.Unmarshal(b, &all); err != nil {
		return []*Obligation{mkOb(name, "configkeys", "spec/configkeys.json parses", false, err.Error(), props)}
	}
	k := strings.LastIndex(spec, ".")
	if k < 0 {
		return []*Obligation{mkOb(name, "configkeys", "configkeys:<pkg.Type>", false, "malformed", props)}
	}
	pkg := eng.typesPkg(modPrefix + "internal/" + spec[:k])
	if pkg == nil {
		return []*Obligation{mkOb(name, "configkeys", "package of "+spec+" is loaded", false, "no such package", props)}
	}
	obj := pkg.Scope().Lookup(spec[k+1:])
	if obj == nil {
		return []*Obligation{mkOb(name, "configkeys", "type "+spec+" exists", false, "no such type", props)}
	}
	st, ok := obj.Type().Underlying().(*types.Struct)
	if !ok {
		return []*Obligation{mkOb(name, "configkeys", "type "+spec+" is a struct", false, "not a struct", props)}
	}
	got := map[string]string{}
	for i := 0; i < st.NumFields(); i++ {
		f := st.Field(i)
		if !f.Exported() {
			continue
		}
		key := strings.ToLower(f.Name())
		if tag, ok := reflect.StructTag(st.Tag(i)).Lookup("mapstructure"); ok {
			if n := strings.Split(tag, ",")[0]; n != "" {
				key = strings.ToLower(n)
			}
		}
		got[f.Name()] = key
	}
	if os.Getenv("SSOVC_PRINT_CONFIGKEYS") != "" {
		jb, _ := json.Marshal(got)
		fmt.Printf("CONFIGKEYS %s %s\n", spec, jb)
	}
	want := all[spec]
	var diff []string
	for f, k := range want {
		if got[f] != k {
			diff = append(diff, fmt.Sprintf("%s decodes from %q, recorded %q", f, got[f], k))
		}
	}
	for f, k := range got {
		if _, ok := want[f]; !ok {
			diff = append(diff, fmt.Sprintf("%s decodes from %q, not recorded", f, k))
		}
	}
	sort.Strings(diff)
	return []*Obligation{mkOb(name, "configkeys", "the fields of "+spec+" decode from the recorded configuration keys (spec/configkeys.json)", len(diff) == 0 && len(want) > 0, strings.Join(diff, "; "), props)}
}

// jsonFieldObligations: "pkg.Type[@props]" — a struct that is sealed as JSON and opened again comes back field for
// field only if encoding/json writes every field: each field is exported, none is tagged json:"-", and no two
// fields share a key (encoding/json drops both of two fields that collide at one depth; matching on decode is
// case-insensitive). The key names themselves are free. encoding/json itself is not verified.
func jsonFieldObligations(eng *Engine, spec string) []*Obligation {
	var props []string
	if j := strings.Index(spec, "@"); j >= 0 {
		props = strings.Split(spec[j+1:], ",")
		spec = spec[:j]
	}
	name := "jsonfields[" + spec + "]"
	k := strings.LastIndex(spec, ".")
	if k < 0 {
		return []*Obligation{mkOb(name, "jsonfields", "jsonfields:<pkg.Type>", false, "malformed", props)}
	}
	pkg := eng.typesPkg(modPrefix + "internal/" + spec[:k])
	if pkg == nil {
		return []*Obligation{mkOb(name, "jsonfields", "package of "+spec+" is loaded", false, "no such package", props)}
	}
	obj := pkg.Scope().Lookup(spec[k+1:])
	if obj == nil {
		return []*Obligation{mkOb(name, "jsonfields", "type "+spec+" exists", false, "no such type", props)}
	}
	st, ok := obj.Type().Underlying().(*types.Struct)
	if !ok {
		return []*Obligation{mkOb(name, "jsonfields", "type "+spec+" is a struct", false, "not a struct", props)}
	}
	var diff []string
	seen := map[string]string{}
	for i := 0; i < st.NumFields(); i++ {
		f := st.Field(i)
		if f.Embedded() {
			diff = append(diff, f.Name()+" is embedded (its promoted keys are not checked here)")
			continue
		}
		if !f.Exported() {
			diff = append(diff, f.Name()+" is unexported: encoding/json does not write it")
			continue
		}
		key := f.Name()
		if tag, ok := reflect.StructTag(st.Tag(i)).Lookup("json"); ok {
			if tag == "-" {
				diff = append(diff, f.Name()+" is tagged json:\"-\": it is not written")
				continue
			}
			if n := strings.Split(tag, ",")[0]; n != "" {
				key = n
			}
		}
		lk := strings.ToLower(key)
		if other, dup := seen[lk]; dup {
			diff = append(diff, fmt.Sprintf("%s and %s share the key %q", other, f.Name(), key))
		}
		seen[lk] = f.Name()
	}
	sort.Strings(diff)
	return []*Obligation{mkOb(name, "jsonfields", "every field of "+spec+" is written by encoding/json under a key of its own (what is sealed is the whole value)", len(diff) == 0 && st.NumFields() > 0, strings.Join(diff, "; "), props)}
}

// assumedContractObligations: "name[@props]" — an assumed contract of a library the proof rests on is put to a
// bounded witness test against the real library (the replay adapter registered as assumed[name] in
// replay/index.json, run with `go test -overlay` on the tree under check). A failing witness refutes the
// assumption on the real code: the obligation fails, with that test as its replay. A passing witness proves
// nothing: the obligation is recorded as a bounded stand-in (kind "assumed-contract", back end "bounded-witness"),
// kept out of the discharged count.
func assumedContractObligations(eng *Engine, spec string) []*Obligation {
	var props []string
	if j := strings.Index(spec, "@"); j >= 0 {
		props = strings.Split(spec[j+1:], ",")
		spec = spec[:j]
	}
	name := "assumed[" + spec + "]"
	o := &Obligation{Name: name, Kind: "assumed-contract", Props: props, Solvers: map[string]int{},
		Clause: "assumed library contract " + spec + " is not refuted by its witness test on the real library (bounded; not a proof)"}
	outDir := filepath.Join(outBase(), "out", "assumed")
	failedOnCode, detail := tryReplay(eng, outDir, "", o)
	vc := &VC{Ob: name, Kind: "assumed-contract", Clause: o.Clause, Raw: detail, Solver: "bounded-witness"}
	o.VCs = []*VC{vc}
	switch {
	case failedOnCode:
		o.Status = "failed"
		vc.Verdict = "witness-fails"
		o.Failed = []*VC{vc}
		o.replayed = true
	case strings.HasPrefix(detail, "no replay") || strings.HasPrefix(detail, "bad replay") || !strings.Contains(detail, "\nok "):
		o.Status = "failed"
		vc.Verdict = "witness-did-not-run"
		o.Failed = []*VC{vc}
	default:
		o.Status = "discharged"
		vc.Verdict = "not-refuted"
		o.Solvers["bounded-witness"] = 1
	}
	return []*Obligation{o}
}
