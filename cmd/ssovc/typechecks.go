package main

// go/types-level obligation generators (C20); filled in later.
func runTypeCheck(eng *Engine, name string) []*Obligation { return nil }
