package main

import (
	"bytes"
	"context"
	"crypto/sha256"
	"fmt"
	"os"
	"os/exec"
	"path/filepath"
	"regexp"
	"strings"
	"sync"
	"time"
)

var symRe = regexp.MustCompile(`[A-Za-z_][A-Za-z0-9_]*`)

// script renders a VC as an SMT-LIB 2 script.
func (vc *VC) script(models bool) string {
	var body strings.Builder
	for _, a := range vc.Asserts {
		body.WriteString("(assert ")
		body.WriteString(a)
		body.WriteString(")\n")
	}
	body.WriteString("(assert (not ")
	body.WriteString(vc.Goal.S)
	body.WriteString("))\n")
	text := body.String()
	// declarations for the symbols used, to a fixpoint through axioms
	used := map[string]bool{}
	scan := func(s string) {
		for _, m := range symRe.FindAllString(s, -1) {
			used[m] = true
		}
	}
	scan(text)
	reg.mu.Lock()
	var axs []string
	taken := map[string]bool{}
	for changed := true; changed; {
		changed = false
		for _, a := range reg.axioms {
			if taken[a.name] {
				continue
			}
			for _, t := range a.triggers {
				if used[t] {
					taken[a.name] = true
					axs = append(axs, a.text)
					scan(a.text)
					changed = true
					break
				}
			}
		}
	}
	var decls []string
	for _, n := range reg.order {
		if used[n] {
			decls = append(decls, reg.decls[n])
		}
	}
	reg.mu.Unlock()
	var out strings.Builder
	if models {
		out.WriteString("(set-option :produce-models true)\n")
	}
	out.WriteString("(set-logic ALL)\n")
	for _, d := range decls {
		out.WriteString(d)
		out.WriteByte('\n')
	}
	for _, a := range axs {
		out.WriteString(a)
		out.WriteByte('\n')
	}
	out.WriteString(text)
	out.WriteString("(check-sat)\n")
	if models {
		out.WriteString("(get-model)\n")
	}
	return out.String()
}

type solverSpec struct {
	name string
	args func(file string, secs int) []string
	bin  string
}

var solvers = []solverSpec{
	{"z3-new", func(f string, s int) []string { return []string{fmt.Sprintf("-T:%d", s), f} }, "z3-new"},
	{"cvc5", func(f string, s int) []string {
		return []string{"--strings-exp", fmt.Sprintf("--tlimit=%d", s*1000), "--produce-models", f}
	}, "cvc5"},
	{"z3", func(f string, s int) []string { return []string{fmt.Sprintf("-T:%d", s), f} }, "z3"},
}

func haveSolvers() []string {
	var ok []string
	for _, s := range solvers {
		if _, err := exec.LookPath(s.bin); err == nil {
			ok = append(ok, s.name)
		}
	}
	return ok
}

type solveOut struct {
	verdict string // unsat, sat, unknown, timeout, error
	raw     string
	secs    float64
	solver  string
}

func runSolver(ctx context.Context, s solverSpec, file string, secs int) solveOut {
	t0 := time.Now()
	cctx, cancel := context.WithTimeout(ctx, time.Duration(secs+2)*time.Second)
	defer cancel()
	cmd := exec.CommandContext(cctx, s.bin, s.args(file, secs)...)
	var buf bytes.Buffer
	cmd.Stdout = &buf
	cmd.Stderr = &buf
	_ = cmd.Run()
	out := buf.String()
	el := time.Since(t0).Seconds()
	first := strings.TrimSpace(strings.SplitN(out, "\n", 2)[0])
	so := solveOut{raw: out, secs: el, solver: s.name}
	if ctx.Err() != nil {
		so.verdict = "cancelled"
		return so
	}
	hasErr := strings.Contains(out, "(error")
	switch first {
	case "unsat":
		// z3 prints an error for (get-model) after unsat; that one is expected
		if hasErr && !onlyModelError(out) {
			so.verdict = "error"
		} else {
			so.verdict = "unsat"
		}
	case "sat":
		if hasErr {
			so.verdict = "error"
		} else {
			so.verdict = "sat"
		}
	case "unknown":
		so.verdict = "unknown"
	case "timeout":
		so.verdict = "timeout"
	default:
		if cctx.Err() != nil || strings.Contains(out, "timeout") || strings.Contains(out, "interrupted") {
			so.verdict = "timeout"
		} else {
			so.verdict = "error"
		}
	}
	return so
}

func onlyModelError(out string) bool {
	for _, l := range strings.Split(out, "\n") {
		if strings.Contains(l, "(error") && !strings.Contains(l, "model is not available") && !strings.Contains(l, "Cannot get model") && !strings.Contains(l, "cannot get model") {
			return false
		}
	}
	return true
}

type solveCfg struct {
	outDir   string
	quickSec int
	fullSec  int
	twoSolv  bool // thorough: require two independent unsat answers
	jobs     int
}

type cacheEntry struct {
	verdict, solver, raw string
	secs                 float64
	confirmed            []string
}

// solveAll discharges all VCs with the solver portfolio.
func solveAll(vcs []*VC, cfg solveCfg) {
	os.MkdirAll(cfg.outDir, 0o755)
	var mu sync.Mutex
	cache := map[[32]byte]*cacheEntry{}
	covered := map[string]bool{} // cover obligations already witnessed by one path
	failedOb := map[string]bool{} // obligations that already have a failing path: the rest is skipped
	sem := make(chan struct{}, cfg.jobs)
	var wg sync.WaitGroup
	// cover (vacuity) obligations: "is this path / antecedent provably infeasible?" — one group per
	// obligation, paths tried in order with a short timeout until one is NOT refuted (sat or unknown).
	groups := map[string][]int{}
	var gorder []string
	for i, vc := range vcs {
		if vc.Kind == "cover" {
			if _, ok := groups[vc.Ob]; !ok {
				gorder = append(gorder, vc.Ob)
			}
			groups[vc.Ob] = append(groups[vc.Ob], i)
		}
	}
	for _, ob := range gorder {
		wg.Add(1)
		sem <- struct{}{}
		go func(idx []int) {
			defer wg.Done()
			defer func() { <-sem }()
			found := false
			for _, i := range idx {
				vc := vcs[i]
				if found {
					vc.Verdict, vc.Solver = "skipped", "covered-by-another-path"
					continue
				}
				if vc.Goal.S == "true" {
					vc.Verdict, vc.Solver = "unsat", "trivial"
					continue
				}
				file := filepath.Join(cfg.outDir, fmt.Sprintf("cv%05d.smt2", i))
				os.WriteFile(file, []byte(vc.script(false)), 0o644)
				r := runSolver(context.Background(), solvers[0], file, 2)
				vc.Verdict, vc.Solver, vc.Raw, vc.Time = r.verdict, r.solver, r.raw, r.secs
				if r.verdict != "unsat" {
					// not refuted: feasible (sat) or at least not provably vacuous (unknown/timeout)
					if r.verdict != "error" {
						vc.Verdict = "sat"
					}
					found = true
				}
				os.Remove(file)
			}
		}(groups[ob])
	}
	for i, vc := range vcs {
		if vc.Kind == "cover" {
			continue
		}
		wg.Add(1)
		sem <- struct{}{}
		go func(i int, vc *VC) {
			defer wg.Done()
			defer func() { <-sem }()
			if vc.Kind != "cover" && vc.Goal.S == "true" {
				vc.Verdict, vc.Solver = "unsat", "trivial"
				return
			}
			if vc.Kind == "cover" {
				mu.Lock()
				done := covered[vc.Ob]
				mu.Unlock()
				if done {
					vc.Verdict, vc.Solver = "skipped", "covered-by-another-path"
					return
				}
				if vc.Goal.S == "true" {
					// antecedent is syntactically false on this path
					vc.Verdict, vc.Solver = "unsat", "trivial"
					return
				}
			}
			mu.Lock()
			skip := failedOb[vc.Ob]
			mu.Unlock()
			if skip {
				vc.Verdict, vc.Solver = "skipped", "obligation-already-failed"
				return
			}
			text := vc.script(true)
			h := sha256.Sum256([]byte(text))
			mu.Lock()
			ce, ok := cache[h]
			mu.Unlock()
			if ok {
				vc.Verdict, vc.Solver, vc.Raw, vc.Time = ce.verdict, ce.solver, ce.raw, 0
				vc.Confirmed = ce.confirmed
				return
			}
			file := filepath.Join(cfg.outDir, fmt.Sprintf("vc%05d.smt2", i))
			os.WriteFile(file, []byte("; ob="+vc.Ob+" trace="+vc.Trace+"\n"+text), 0o644)
			vc.File = file
			r := solveOne(file, cfg, vc.Kind == "cover")
			vc.Verdict, vc.Solver, vc.Raw, vc.Time, vc.Confirmed = r.verdict, r.solver, r.raw, r.secs, r.confirmed
			if vc.Kind != "cover" && r.verdict != "unsat" {
				mu.Lock()
				failedOb[vc.Ob] = true
				mu.Unlock()
			}
			mu.Lock()
			cache[h] = &cacheEntry{r.verdict, r.solver, r.raw, r.secs, r.confirmed}
			mu.Unlock()
			if os.Getenv("SSOVC_KEEP") == "" && ((vc.Kind != "cover" && r.verdict == "unsat") || (vc.Kind == "cover" && r.verdict == "sat")) {
				os.Remove(file)
				vc.File = ""
			}
		}(i, vc)
	}
	wg.Wait()
}

type oneResult struct {
	solveOut
	confirmed []string
}

func solveOne(file string, cfg solveCfg, wantSat bool) oneResult {
	ctx := context.Background()
	// stage 1: the fast solver alone
	first := runSolver(ctx, solvers[0], file, cfg.quickSec)
	decisive := func(v string) bool { return v == "unsat" || v == "sat" }
	if decisive(first.verdict) && !(cfg.twoSolv && first.verdict == "unsat" && !wantSat) {
		return oneResult{first, []string{first.solver}}
	}
	// stage 2: race all solvers
	cctx, cancel := context.WithCancel(ctx)
	defer cancel()
	ch := make(chan solveOut, len(solvers))
	n := 0
	for k, s := range solvers {
		if k == 0 && decisive(first.verdict) {
			continue
		}
		if _, err := exec.LookPath(s.bin); err != nil {
			continue
		}
		n++
		go func(s solverSpec) { ch <- runSolver(cctx, s, file, cfg.fullSec) }(s)
	}
	var best solveOut = first
	var confirmed []string
	if first.verdict == "unsat" {
		confirmed = append(confirmed, first.solver)
	}
	var all []string
	all = append(all, fmt.Sprintf("%s:%s(%.1fs)", first.solver, first.verdict, first.secs))
	for i := 0; i < n; i++ {
		r := <-ch
		if r.verdict == "cancelled" {
			continue
		}
		all = append(all, fmt.Sprintf("%s:%s(%.1fs)", r.solver, r.verdict, r.secs))
		switch r.verdict {
		case "unsat":
			confirmed = append(confirmed, r.solver)
			if best.verdict != "unsat" {
				best = r
			}
			if !cfg.twoSolv || len(confirmed) >= 2 {
				cancel()
			}
		case "sat":
			if best.verdict != "unsat" && best.verdict != "sat" {
				best = r
			}
			if best.verdict == "unsat" {
				// disagreement between solvers: engine error
				best.verdict = "error"
				best.raw = "solver disagreement: " + strings.Join(all, " ") + "\n" + r.raw
			}
			cancel()
		default:
			if best.verdict != "unsat" && best.verdict != "sat" && best.verdict != "unknown" {
				best = r
			}
		}
	}
	if best.verdict != "unsat" && best.verdict != "sat" {
		best.raw = strings.Join(all, " ") + "\n" + best.raw
	}
	return oneResult{best, confirmed}
}
