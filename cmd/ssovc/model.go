package main

import (
	"os"
	"fmt"
	"go/types"
	"sort"
	"strings"
	"sync"

	"golang.org/x/tools/go/ssa"
)

// ---------------------------------------------------------------------------
// Global symbol registry: every SMT symbol the engine creates is registered
// here with its declaration. A query includes the declarations of exactly the
// symbols it mentions (plus axioms triggered by them).

type axiom struct {
	triggers []string // included when any trigger symbol occurs
	text     string   // full (assert ...) line
	name     string
}

type registry struct {
	mu     sync.Mutex
	decls  map[string]string
	order  []string
	axioms []axiom
	ctr    int
	// closure table: opaque func ids that denote closures known to the engine
	clos map[string]*ClosV
	// type tags
	tags  map[string]int
	tagTy map[int]types.Type
}

var reg = &registry{decls: map[string]string{}, clos: map[string]*ClosV{}, tags: map[string]int{}, tagTy: map[int]types.Type{}}

func (r *registry) declare(name, decl string) {
	r.mu.Lock()
	defer r.mu.Unlock()
	if _, ok := r.decls[name]; ok {
		return
	}
	r.decls[name] = decl
	r.order = append(r.order, name)
}

func (r *registry) fresh(hint string) string {
	r.mu.Lock()
	r.ctr++
	n := r.ctr
	r.mu.Unlock()
	h := mangle(hint)
	if len(h) > 60 {
		h = h[:60]
	}
	return fmt.Sprintf("k%d%s", n, h[1:])
}

func (r *registry) counter() int {
	r.mu.Lock()
	defer r.mu.Unlock()
	return r.ctr
}

func (r *registry) freshConst(hint string, s Sort) Term {
	n := r.fresh(hint)
	r.declare(n, fmt.Sprintf("(declare-const %s %s)", n, s))
	return Term{n, s}
}

func (r *registry) addAxiom(name string, triggers []string, text string) {
	r.mu.Lock()
	defer r.mu.Unlock()
	for _, a := range r.axioms {
		if a.name == name {
			return
		}
	}
	r.axioms = append(r.axioms, axiom{triggers, text, name})
}

// uf declares (once) an uninterpreted function and returns its application.
func (r *registry) uf(name string, ret Sort, args ...Term) Term {
	var as []string
	for _, a := range args {
		as = append(as, a.Sort.String())
	}
	r.declare(name, fmt.Sprintf("(declare-fun %s (%s) %s)", name, strings.Join(as, " "), ret))
	return App(ret, name, args...)
}

func (r *registry) typeTag(t types.Type) Term {
	k := types.TypeString(t, nil)
	r.mu.Lock()
	defer r.mu.Unlock()
	if n, ok := r.tags[k]; ok {
		return IntLit(int64(n))
	}
	n := len(r.tags) + 1
	r.tags[k] = n
	r.tagTy[n] = t
	return IntLit(int64(n))
}

func (r *registry) tagType(n int64) types.Type {
	r.mu.Lock()
	defer r.mu.Unlock()
	return r.tagTy[int(n)]
}

func (r *registry) tagName(n int64) string {
	r.mu.Lock()
	defer r.mu.Unlock()
	for k, v := range r.tags {
		if int64(v) == n {
			return k
		}
	}
	return "?"
}

// ---------------------------------------------------------------------------
// Values

type Val interface{ isVal() }

// Sc is a scalar leaf (Int, Bool, String; maps, chans and opaque funcs are Int refs).
type Sc struct{ T Term }

// PtrV is a pointer; its address is engine-level.
type PtrV struct{ A Addr }

// StructV is a struct by value.
type StructV struct {
	T types.Type // the (possibly named) struct type
	F []Val
}

// SliceV is a non-byte slice: backing array id, offset, length.
type SliceV struct {
	Arr, Off, Len Term
	Elem          types.Type
}

// IfaceV is an interface value: dynamic type tag (0 = nil) and payload.
type IfaceV struct{ Tag, Pay Term }

// TupleV is a multi-value result.
type TupleV struct{ E []Val }

// ClosV is a closure (or plain function value) known to the engine.
type ClosV struct {
	Fn    *ssa.Function
	Binds []Val
	id    string
}

// RangeV is a map iterator: the map and the ghost set of visited keys.
type RangeV struct {
	M       Term
	Visited string
}

func (RangeV) isVal()  {}
func (Sc) isVal()      {}
func (PtrV) isVal()    {}
func (StructV) isVal() {}
func (SliceV) isVal()  {}
func (IfaceV) isVal()  {}
func (TupleV) isVal()  {}
func (*ClosV) isVal()  {}

// Addr is an engine-level address.
type Addr interface{ isAddr() }

// ObjAddr: the whole object of type Elem living at Ref.
type ObjAddr struct {
	Ref  Term
	Elem types.Type
}

// FldAddr: field Idx of the struct at Base.
type FldAddr struct {
	Base Addr
	Idx  int
	ST   *types.Struct
}

// ElemAddr: element Idx of backing array Arr, elements of type Elem.
type ElemAddr struct {
	Arr, Idx Term
	Elem     types.Type
}

// ByteAddr: byte I of a byte slice modelled as the string S (loads only).
type ByteAddr struct{ S, I Term }

func (ByteAddr) isAddr() {}

// GlobAddr: a package-level variable.
type GlobAddr struct{ G *ssa.Global }

func (ObjAddr) isAddr()  {}
func (FldAddr) isAddr()  {}
func (ElemAddr) isAddr() {}
func (GlobAddr) isAddr() {}

// ---------------------------------------------------------------------------
// Leaves: the flattened scalar components of a Go type.

type Leaf struct {
	Path string
	Sort Sort
	Ref  bool // the leaf holds a reference (pointer, map, slice backing array)
}

// refFams: heap families whose elements are references (filled in as families are used)
var refFams sync.Map

func markRef(fam string, l Leaf) {
	if l.Ref {
		refFams.Store(fam, true)
	}
}

type unsupported struct{ msg string }

func (u unsupported) Error() string { return "outside-subset: " + u.msg }

func bail(format string, a ...interface{}) { panic(unsupported{fmt.Sprintf(format, a...)}) }

func isByte(t types.Type) bool {
	b, ok := t.Underlying().(*types.Basic)
	return ok && (b.Kind() == types.Uint8)
}

func isByteSlice(t types.Type) bool {
	switch u := t.Underlying().(type) {
	case *types.Slice:
		return isByte(u.Elem())
	case *types.Array:
		return isByte(u.Elem())
	}
	return false
}

func isTimeTime(t types.Type) bool {
	n, ok := types.Unalias(t).(*types.Named)
	return ok && n.Obj().Pkg() != nil && n.Obj().Pkg().Path() == "time" && n.Obj().Name() == "Time"
}

func leavesOf(t types.Type) []Leaf {
	if isTimeTime(t) {
		return []Leaf{{"", SInt, false}}
	}
	switch u := t.Underlying().(type) {
	case *types.Basic:
		switch {
		case u.Info()&types.IsBoolean != 0:
			return []Leaf{{"", SBool, false}}
		case u.Info()&types.IsString != 0:
			return []Leaf{{"", SStr, false}}
		default:
			return []Leaf{{"", SInt, false}}
		}
	case *types.Pointer, *types.Map:
		return []Leaf{{"", SInt, true}}
	case *types.Chan, *types.Signature:
		return []Leaf{{"", SInt, false}}
	case *types.Interface:
		return []Leaf{{"#tag", SInt, false}, {"#pay", SInt, false}}
	case *types.Slice:
		if isByte(u.Elem()) {
			return []Leaf{{"", SStr, false}}
		}
		return []Leaf{{"#arr", SInt, true}, {"#len", SInt, false}}
	case *types.Array:
		if isByte(u.Elem()) {
			return []Leaf{{"", SStr, false}}
		}
		return []Leaf{{"#arr", SInt, true}} // identity of the backing store only
	case *types.Struct:
		var out []Leaf
		for i := 0; i < u.NumFields(); i++ {
			f := u.Field(i)
			for _, l := range leavesOf(f.Type()) {
				out = append(out, Leaf{"." + f.Name() + l.Path, l.Sort, l.Ref})
			}
		}
		return out
	case *types.Tuple:
		var out []Leaf
		for i := 0; i < u.Len(); i++ {
			for _, l := range leavesOf(u.At(i).Type()) {
				out = append(out, Leaf{fmt.Sprintf(".%d%s", i, l.Path), l.Sort, l.Ref})
			}
		}
		return out
	}
	bail("type %s", t)
	return nil
}

// canon names the heap family a type's values live in.
func canon(t types.Type) string {
	if isTimeTime(t) {
		return "int"
	}
	if n, ok := t.(*types.Named); ok {
		if _, ok := n.Underlying().(*types.Struct); ok {
			o := n.Obj()
			if o.Pkg() != nil {
				return o.Pkg().Path() + "." + o.Name()
			}
			return o.Name()
		}
	}
	if a, ok := t.(*types.Alias); ok {
		return canon(types.Unalias(a))
	}
	switch u := t.Underlying().(type) {
	case *types.Basic:
		switch {
		case u.Info()&types.IsBoolean != 0:
			return "bool"
		case u.Info()&types.IsString != 0:
			return "string"
		default:
			return "int"
		}
	case *types.Pointer:
		return "ptr"
	case *types.Map:
		return "map"
	case *types.Chan:
		return "chan"
	case *types.Signature:
		return "func"
	case *types.Interface:
		return "iface"
	case *types.Slice:
		if isByte(u.Elem()) {
			return "string"
		}
		return "slice"
	case *types.Array:
		if isByte(u.Elem()) {
			return "string"
		}
		return "array"
	case *types.Struct:
		return "anon{" + types.TypeString(u, nil) + "}"
	}
	return types.TypeString(t, nil)
}

// flatten turns a value into its leaves (same order as leavesOf of its type).
func (st *State) flatten(v Val) []Term {
	switch x := v.(type) {
	case Sc:
		return []Term{x.T}
	case PtrV:
		return []Term{st.addrTerm(x.A)}
	case SliceV:
		if x.Off.S != "0" {
			bail("slice with non-zero offset escapes")
		}
		return []Term{x.Arr, x.Len}
	case IfaceV:
		return []Term{x.Tag, x.Pay}
	case StructV:
		var out []Term
		for _, f := range x.F {
			out = append(out, st.flatten(f)...)
		}
		return out
	case TupleV:
		var out []Term
		for _, f := range x.E {
			out = append(out, st.flatten(f)...)
		}
		return out
	case *ClosV:
		return []Term{closID(x)}
	}
	panic(fmt.Sprintf("flatten %T", v))
}

func closID(c *ClosV) Term {
	if c.id == "" {
		t := reg.freshConst("clo_"+c.Fn.Name(), SInt)
		c.id = t.S
		reg.mu.Lock()
		reg.clos[c.id] = c
		reg.mu.Unlock()
	}
	return Term{c.id, SInt}
}

// unflatten rebuilds a value of type t from leaves; returns the rest.
func unflatten(t types.Type, ls []Term) (Val, []Term) {
	if isTimeTime(t) {
		return Sc{ls[0]}, ls[1:]
	}
	switch u := t.Underlying().(type) {
	case *types.Basic:
		return Sc{ls[0]}, ls[1:]
	case *types.Map, *types.Chan:
		return Sc{ls[0]}, ls[1:]
	case *types.Signature:
		reg.mu.Lock()
		c := reg.clos[ls[0].S]
		reg.mu.Unlock()
		if c != nil {
			return c, ls[1:]
		}
		return Sc{ls[0]}, ls[1:]
	case *types.Pointer:
		return PtrV{ObjAddr{ls[0], u.Elem()}}, ls[1:]
	case *types.Interface:
		return IfaceV{ls[0], ls[1]}, ls[2:]
	case *types.Slice:
		if isByte(u.Elem()) {
			return Sc{ls[0]}, ls[1:]
		}
		return SliceV{ls[0], IntLit(0), ls[1], u.Elem()}, ls[2:]
	case *types.Array:
		if isByte(u.Elem()) {
			return Sc{ls[0]}, ls[1:]
		}
		return SliceV{ls[0], IntLit(0), IntLit(u.Len()), u.Elem()}, ls[1:]
	case *types.Struct:
		sv := StructV{T: t}
		for i := 0; i < u.NumFields(); i++ {
			var f Val
			f, ls = unflatten(u.Field(i).Type(), ls)
			sv.F = append(sv.F, f)
		}
		return sv, ls
	case *types.Tuple:
		tv := TupleV{}
		for i := 0; i < u.Len(); i++ {
			var f Val
			f, ls = unflatten(u.At(i).Type(), ls)
			tv.E = append(tv.E, f)
		}
		return tv, ls
	}
	bail("unflatten %s", t)
	return nil, nil
}

// zeroVal is the Go zero value of t.
func zeroVal(t types.Type) Val {
	var ls []Term
	for _, l := range leavesOf(t) {
		switch l.Sort {
		case SInt:
			ls = append(ls, IntLit(0))
		case SBool:
			ls = append(ls, TFalse)
		case SStr:
			ls = append(ls, StrLit(""))
		}
	}
	v, _ := unflatten(t, ls)
	return v
}

// ---------------------------------------------------------------------------
// Heaps

// HeapVer is one version of a heap array. Dims are the index sorts.
type HeapVer struct {
	Fam  string // family name, e.g. "H|pkg.T|.field"
	Name string // SMT constant naming this version
	Dims []Sort
	Elem Sort
	// store overlay (engine-side shortcut for syntactic select-over-store)
	Prev *HeapVer
	Idx  []Term
	Val  Term
	kind int // 0 base/havoc, 1 full store
}

func arrSort(dims []Sort, elem Sort) string {
	s := elem.String()
	for i := len(dims) - 1; i >= 0; i-- {
		s = fmt.Sprintf("(Array %s %s)", dims[i], s)
	}
	return s
}

func newHeapConst(fam string, dims []Sort, elem Sort, hint string) *HeapVer {
	n := reg.fresh(hint + "_" + fam)
	reg.declare(n, fmt.Sprintf("(declare-const %s %s)", n, arrSort(dims, elem)))
	return &HeapVer{Fam: fam, Name: n, Dims: dims, Elem: elem}
}

// entry version of a heap family: a fixed global name so that all paths agree.
func entryHeap(fam string, dims []Sort, elem Sort) *HeapVer { return baseHeap("0", fam, dims, elem) }

func selectTerm(name string, dims []Sort, elem Sort, idx []Term) Term {
	s := name
	for _, i := range idx {
		s = fmt.Sprintf("(select %s %s)", s, i.S)
	}
	if len(idx) == len(dims) {
		return Term{s, elem}
	}
	return Term{s, SInt} // partial (row) — sort unused
}

func (h *HeapVer) sel(idx []Term) Term {
	// walk the overlay for a syntactically identical index
	for v := h; v != nil && v.kind == 1; v = v.Prev {
		same := true
		distinct := false
		for i := range idx {
			if v.Idx[i].S != idx[i].S {
				same = false
				if a, ok := isIntLit(v.Idx[i]); ok && idx[i].Sort == SInt {
					if b, ok := isIntLit(idx[i]); ok && a != b {
						distinct = true
					}
				}
				if isStrLit(v.Idx[i]) && isStrLit(idx[i]) {
					distinct = true
				}
			}
		}
		if same {
			return v.Val
		}
		if !distinct {
			break
		}
	}
	return selectTerm(h.Name, h.Dims, h.Elem, idx)
}

// storeExpr builds (store ...) for a multi-dimensional heap.
func storeExpr(name string, idx []Term, val string) string {
	if len(idx) == 1 {
		return fmt.Sprintf("(store %s %s %s)", name, idx[0].S, val)
	}
	inner := storeExpr(fmt.Sprintf("(select %s %s)", name, idx[0].S), idx[1:], val)
	return fmt.Sprintf("(store %s %s %s)", name, idx[0].S, inner)
}

// ---------------------------------------------------------------------------
// State

type State struct {
	asserts []string            // path condition, in order
	heaps   map[string]*HeapVer // current version per family
	alloc   *HeapVer            // allocation set: Array Int Bool
	alloc0  *HeapVer
	clock   Term
	clock0  Term
	stack   []*Frame
	// bookkeeping for the root function
	localRefs []Term // refs allocated by this path (for frame reasoning)
	anchors   map[string]*Anchor
	callCount map[string]int
	held      map[string]bool // held mutexes (by address term)
	// local variables whose address never escapes (ssa.Alloc with Heap == false): no callee can reach them, so
	// they keep their contents across a call that "may modify everything"
	privRefs []Term
	preHavoc map[string]*HeapVer // heap versions just before the most recent havoc-all (carried across havocs)
	keepRefs []Term              // the private cells that survive that havoc
	lockSnap  map[string]*HeapSnap
	notes     []string
	trace     []string // branch decisions, for reporting
	dead      bool
	ghost     map[string]Term // misc ghost scalars (e.g. $tick)
	epoch     string          // names the base version of heap families not yet touched
	epochN    int
	rec       *dryRun
	lastLock  *HeapSnap
	guarded   int
	epochAlloc *HeapVer // allocation set when the current epoch's base heaps came into being
	frameBase map[string]*HeapVer // guarded families: frame is relative to the value at lock acquisition
	heldEntry map[string]bool
}

// HeapSnap is an immutable view of all heap families at one program point.
type HeapSnap struct {
	m     map[string]*HeapVer
	epoch string
	clock Term
}

func (st *State) snap() *HeapSnap {
	m := make(map[string]*HeapVer, len(st.heaps))
	for k, v := range st.heaps {
		m[k] = v
	}
	return &HeapSnap{m, st.epoch, st.clock}
}

func baseHeap(epoch, fam string, dims []Sort, elem Sort) *HeapVer {
	n := "H" + epoch + mangle(fam)[1:]
	reg.declare(n, fmt.Sprintf("(declare-const %s %s)", n, arrSort(dims, elem)))
	return &HeapVer{Fam: fam, Name: n, Dims: dims, Elem: elem}
}

func (s *HeapSnap) load(fam string, dims []Sort, elem Sort, idx []Term) Term {
	h, ok := s.m[fam]
	if !ok {
		h = baseHeap(s.epoch, fam, dims, elem)
	}
	if len(dims) == 0 {
		return Term{h.Name, elem}
	}
	return h.sel(idx)
}

type Anchor struct {
	Called Term
	Rets   []Val
	RetT   *types.Tuple
	Args   []Val
	ArgT   []types.Type
	Before *HeapSnap
	After  *HeapSnap
}

func (st *State) clone() *State {
	n := *st
	n.asserts = append([]string(nil), st.asserts...)
	n.heaps = make(map[string]*HeapVer, len(st.heaps))
	for k, v := range st.heaps {
		n.heaps[k] = v
	}
	n.stack = make([]*Frame, len(st.stack))
	for i, f := range st.stack {
		n.stack[i] = f.clone()
	}
	n.localRefs = append([]Term(nil), st.localRefs...)
	n.privRefs = append([]Term(nil), st.privRefs...)
	n.keepRefs = append([]Term(nil), st.keepRefs...)
	n.anchors = make(map[string]*Anchor, len(st.anchors))
	for k, v := range st.anchors {
		n.anchors[k] = v
	}
	n.callCount = make(map[string]int, len(st.callCount))
	for k, v := range st.callCount {
		n.callCount[k] = v
	}
	n.held = make(map[string]bool, len(st.held))
	for k, v := range st.held {
		n.held[k] = v
	}
	n.lockSnap = make(map[string]*HeapSnap, len(st.lockSnap))
	for k, v := range st.lockSnap {
		n.lockSnap[k] = v
	}
	n.notes = append([]string(nil), st.notes...)
	n.frameBase = make(map[string]*HeapVer, len(st.frameBase))
	for k, v := range st.frameBase {
		n.frameBase[k] = v
	}
	n.trace = append([]string(nil), st.trace...)
	n.ghost = make(map[string]Term, len(st.ghost))
	for k, v := range st.ghost {
		n.ghost[k] = v
	}
	return &n
}

func (st *State) assume(t Term) {
	if t.S == "true" {
		return
	}
	st.asserts = append(st.asserts, t.S)
}

func (st *State) heap(fam string, dims []Sort, elem Sort) *HeapVer {
	if h, ok := st.heaps[fam]; ok {
		return h
	}
	h := baseHeap(st.epoch, fam, dims, elem)
	st.heaps[fam] = h
	if strings.HasSuffix(fam, "#len") && elem == SInt {
		st.asserts = append(st.asserts, lenNonNeg(h))
	}
	if st.preHavoc != nil && len(dims) >= 1 && (strings.HasPrefix(fam, "H|") || strings.HasPrefix(fam, "C|")) {
		if old, ok := st.preHavoc[fam]; ok && old.Name != h.Name {
			for _, r := range st.keepRefs {
				st.asserts = append(st.asserts, fmt.Sprintf("(= (select %s %s) (select %s %s))", h.Name, r.S, old.Name, r.S))
			}
		}
	}
	if strings.HasPrefix(fam, "MD|") && len(dims) == 2 && elem == SBool {
		// the nil map has no keys
		st.asserts = append(st.asserts, fmt.Sprintf("(= (select %s 0) ((as const (Array %s Bool)) false))", h.Name, dims[1]))
	}
	// references stored in a heap that predates this function's (or this epoch's) allocations denote
	// objects that already existed then: nothing old points to an object allocated later
	if strings.HasSuffix(fam, "#pay") && elem == SInt && st.epochAlloc != nil && (strings.HasPrefix(fam, "H|") || strings.HasPrefix(fam, "C|")) {
		// interface payloads held by existing objects: a sentinel/boxed scalar (<= 0) or an object that already exists
		al := st.epochAlloc.Name
		if len(dims) == 1 {
			st.asserts = append(st.asserts, fmt.Sprintf("(forall ((r Int)) (! (=> (select %s r) (or (<= (select %s r) 0) (select %s (select %s r)))) :pattern ((select %s r))))", al, h.Name, al, h.Name, h.Name))
		}
	}
	if _, isRef := refFams.Load(fam); isRef && elem == SInt && st.epochAlloc != nil {
		al := st.epochAlloc.Name
		switch len(dims) {
		case 1:
			st.asserts = append(st.asserts, fmt.Sprintf("(forall ((r Int)) (! (=> (select %s r) (or (= (select %s r) 0) (select %s (select %s r)))) :pattern ((select %s r))))", al, h.Name, al, h.Name, h.Name))
		case 2:
			st.asserts = append(st.asserts, fmt.Sprintf("(forall ((r Int) (k %s)) (! (=> (select %s r) (or (= (select (select %s r) k) 0) (select %s (select (select %s r) k)))) :pattern ((select (select %s r) k))))", dims[1], al, h.Name, al, h.Name, h.Name))
		}
	}
	return h
}

func (st *State) store(fam string, dims []Sort, elem Sort, idx []Term, val Term) {
	h := st.heap(fam, dims, elem)
	if len(idx) > 0 {
		st.recWriteH(h, idx[0])
	} else {
		st.recWriteH(h)
	}
	if len(dims) == 0 {
		// scalar global: new version is just an equality
		n := newHeapConst(fam, dims, elem, "g")
		st.assume(Eq(Term{n.Name, elem}, val))
		st.heaps[fam] = n
		return
	}
	n := newHeapConst(fam, dims, elem, "h")
	st.asserts = append(st.asserts, fmt.Sprintf("(= %s %s)", n.Name, storeExpr(h.Name, idx, val.S)))
	n.Prev, n.Idx, n.Val, n.kind = h, idx, val, 1
	st.heaps[fam] = n
}

func (st *State) load(fam string, dims []Sort, elem Sort, idx []Term) Term {
	h := st.heap(fam, dims, elem)
	if len(dims) == 0 {
		return Term{h.Name, elem}
	}
	return h.sel(idx)
}

// havocFam replaces a heap family by an unconstrained fresh version.
func (st *State) havocFam(fam string) {
	h, ok := st.heaps[fam]
	if !ok {
		return
	}
	st.recWriteH(h)
	st.heaps[fam] = newHeapConst(fam, h.Dims, h.Elem, "hv")
}

// havocAt makes one location of a family unknown.
func (st *State) havocAt(fam string, dims []Sort, elem Sort, idx []Term) {
	v := reg.freshConst("hv", elem)
	st.store(fam, dims, elem, idx, v)
}

// havocRow makes one row (all elements under the first index) unknown.
func (st *State) havocRow(fam string, dims []Sort, elem Sort, row Term) {
	h := st.heap(fam, dims, elem)
	if len(dims) < 2 {
		st.havocAt(fam, dims, elem, []Term{row})
		return
	}
	fr := reg.fresh("row")
	reg.declare(fr, fmt.Sprintf("(declare-const %s %s)", fr, arrSort(dims[1:], elem)))
	st.recWriteH(h, row)
	n := newHeapConst(fam, dims, elem, "h")
	st.asserts = append(st.asserts, fmt.Sprintf("(= %s (store %s %s %s))", n.Name, h.Name, row.S, fr))
	st.heaps[fam] = n
}

// ---------------------------------------------------------------------------
// Address resolution

// famFor computes the heap family prefix and index terms for an address.
// It returns root (family prefix), the field path so far and the indices.
func (st *State) resolve(a Addr) (root string, path string, idx []Term, dims []Sort) {
	switch x := a.(type) {
	case ObjAddr:
		c := canon(x.Elem)
		if _, ok := x.Elem.Underlying().(*types.Struct); ok {
			return "H|" + c, "", []Term{x.Ref}, []Sort{SInt}
		}
		return "C|" + c, "", []Term{x.Ref}, []Sort{SInt}
	case FldAddr:
		r, p, i, d := st.resolve(x.Base)
		return r, p + "." + x.ST.Field(x.Idx).Name(), i, d
	case ElemAddr:
		return "E|" + canon(x.Elem), "", []Term{x.Arr, x.Idx}, []Sort{SInt, SInt}
	case GlobAddr:
		return "G|" + x.G.Pkg.Pkg.Path() + "." + x.G.Name(), "", nil, nil
	}
	panic("resolve")
}

// derefOK: execution continues past a dereference only if the pointer is not nil (a nil dereference
// panics and ends the path; nil-dereference freedom itself is not an obligation of this engine).
// curExec: the executor of the function being verified (functions are verified one at a time).
var curExec *Exec

// nilDerefOn: generate nil-deref obligations (set for properties that claim crash freedom: "nil_deref" in props.json).
var nilDerefOn bool

func isCallResultSym(s string) bool {
	if strings.ContainsAny(s, "( ") {
		return false
	}
	return strings.Contains(s, "_r_")
}

func (st *State) derefOK(a Addr) {
	if st.guarded > 0 {
		return // conditional (guarded) access inside a library model
	}
	for {
		switch x := a.(type) {
		case FldAddr:
			a = x.Base
			continue
		case ObjAddr:
			if _, lit := isIntLit(x.Ref); !lit {
				key := "nn:" + x.Ref.S
				if st.ghost[key].S == "" {
					st.ghost[key] = TTrue
					// a pointer that a call made inside this function handed back is dereferenced: it must be
					// known to be non-nil here (pointers that come in through parameters and the objects they
					// reach are the caller's business: assumed)
					if curExec != nil && specDepth == 0 && (nilDerefOn || os.Getenv("SSOVC_NILDEREF") != "") && isCallResultSym(x.Ref.S) {
						curExec.emit(st, "nil-deref", "", "a pointer returned by a call is not nil where it is dereferenced: "+x.Ref.S[strings.Index(x.Ref.S, "_r_")+3:], nil, Not(Eq(x.Ref, IntLit(0))))
					}
					st.assume(Not(Eq(x.Ref, IntLit(0))))
				}
			}
		}
		return
	}
}

func (st *State) loadAt(a Addr, t types.Type) Val {
	if ba, ok := a.(ByteAddr); ok {
		return Sc{App(SInt, "str.to_code", App(SStr, "str.at", ba.S, ba.I))}
	}
	st.derefOK(a)
	if g, ok := a.(GlobAddr); ok && theEngine != nil {
		if v, ok := theEngine.immutableGlobal(g.G); ok {
			return v
		}
		if v, ok := theEngine.literalGlobal(st, g.G); ok {
			return v
		}
	}
	root, path, idx, dims := st.resolve(a)
	var ls []Term
	for _, l := range leavesOf(t) {
		markRef(root+"|"+path+l.Path, l)
		ls = append(ls, st.load(root+"|"+path+l.Path, dims, l.Sort, idx))
	}
	v, _ := unflatten(t, ls)
	st.assumeWF(v, t)
	st.assumeAllocated(v)
	return v
}

func (st *State) storeAt(a Addr, t types.Type, v Val) {
	if _, ok := a.(ByteAddr); ok {
		bail("store into a byte slice element")
	}
	st.derefOK(a)
	root, path, idx, dims := st.resolve(a)
	ls := st.flatten(v)
	lv := leavesOf(t)
	if len(ls) != len(lv) {
		bail("store arity %s: %d vs %d", t, len(ls), len(lv))
	}
	for i, l := range lv {
		markRef(root+"|"+path+l.Path, l)
		st.store(root+"|"+path+l.Path, dims, l.Sort, idx, ls[i])
	}
}

// addrTerm converts a pointer to the Ref it denotes in SMT.
func (st *State) addrTerm(a Addr) Term {
	switch x := a.(type) {
	case ObjAddr:
		return x.Ref
	case FldAddr:
		// interior pointer: a derived, injective address
		base := st.addrTerm(x.Base)
		fn := "fa" + mangle(canon(structOwner(x))+"."+x.ST.Field(x.Idx).Name())[1:]
		t := reg.uf(fn, SInt, base)
		inv := reg.uf(fn+"_inv", SInt, t)
		st.assume(Eq(inv, base))
		st.assume(Eq(reg.uf("u_interior", SInt, t), IntLit(1)))
		st.notes = append(st.notes, "interior-pointer:"+fn)
		return t
	case GlobAddr:
		n := "ga" + mangle(x.G.Pkg.Pkg.Path()+"."+x.G.Name())[1:]
		reg.declare(n, fmt.Sprintf("(declare-const %s Int)", n))
		return Term{n, SInt}
	case ElemAddr:
		bail("pointer to slice element escapes")
	}
	panic("addrTerm")
}

func structOwner(f FldAddr) types.Type {
	switch b := f.Base.(type) {
	case ObjAddr:
		return b.Elem
	case FldAddr:
		return b.ST.Field(b.Idx).Type()
	case ElemAddr:
		return b.Elem
	}
	return f.ST
}

// assumeWF adds the well-formedness facts the Go runtime guarantees for v.
func (st *State) assumeWF(v Val, t types.Type) {
	switch x := v.(type) {
	case SliceV:
		if _, ok := isIntLit(x.Len); !ok {
			st.assume(Cmp(">=", x.Len, IntLit(0)))
			if _, ok := isIntLit(x.Arr); !ok {
				st.assume(Implies(Eq(x.Arr, IntLit(0)), Eq(x.Len, IntLit(0)))) // a nil slice is empty
			}
		}
	case StructV:
		u := x.T.Underlying().(*types.Struct)
		for i, f := range x.F {
			st.assumeWF(f, u.Field(i).Type())
		}
	case TupleV:
		if tt, ok := t.(*types.Tuple); ok {
			for i, f := range x.E {
				st.assumeWF(f, tt.At(i).Type())
			}
		}
	}
}

// freshVal makes an unconstrained symbolic value of type t.
func (st *State) freshVal(t types.Type, hint string) Val {
	var ls []Term
	for _, l := range leavesOf(t) {
		ls = append(ls, reg.freshConst(hint+l.Path, l.Sort))
	}
	v, _ := unflatten(t, ls)
	st.assumeWF(v, t)
	return v
}

// ghostInt reads a path-local ghost counter (0 when never set).
func (st *State) ghostInt(name string) Term {
	if t, ok := st.ghost[name]; ok && t.S != "" {
		return t
	}
	return IntLit(0)
}

// newRef allocates a fresh object reference.
func (st *State) newRef(hint string) Term {
	r := reg.freshConst(hint, SInt)
	st.assume(Cmp(">", r, IntLit(0)))
	st.assume(Not(Term{fmt.Sprintf("(select %s %s)", st.alloc.Name, r.S), SBool}))
	n := newHeapConst("alloc", []Sort{SInt}, SBool, "al")
	st.asserts = append(st.asserts, fmt.Sprintf("(= %s (store %s %s true))", n.Name, st.alloc.Name, r.S))
	st.alloc = n
	st.localRefs = append(st.localRefs, r)
	if st.rec != nil {
		st.rec.allocd[r.S] = true
	}
	return r
}

// famsWithPrefix lists the heap families currently present with a prefix.
func (st *State) famsWithPrefix(p string) []string {
	var out []string
	for k := range st.heaps {
		if strings.HasPrefix(k, p) {
			out = append(out, k)
		}
	}
	sort.Strings(out)
	return out
}

// recWriteH records (during a loop dry run) that family h was written at first index idx
// (idx.S == "" means: somewhere unknown).
func (st *State) recWriteH(h *HeapVer, idx ...Term) {
	if st.rec == nil {
		return
	}
	st.rec.written[h.Fam] = h
	if len(idx) == 0 || idx[0].S == "" {
		st.rec.unstable[h.Fam] = true
		return
	}
	st.rec.at[h.Fam] = append(st.rec.at[h.Fam], idx[0])
}

// lenNonNeg: every slice length stored in a heap family is non-negative.
func lenNonNeg(h *HeapVer) string {
	if len(h.Dims) == 2 {
		return fmt.Sprintf("(forall ((r Int) (k %s)) (! (>= (select (select %s r) k) 0) :pattern ((select (select %s r) k))))", h.Dims[1], h.Name, h.Name)
	}
	return fmt.Sprintf("(forall ((r Int)) (! (>= (select %s r) 0) :pattern ((select %s r))))", h.Name, h.Name)
}
