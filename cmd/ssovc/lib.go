package main

import (
	"fmt"
	"net/textproto"
	"go/constant"
	"go/types"
	"strings"

	"golang.org/x/tools/go/ssa"
)

// Engine-level models of library functions. Every model used is recorded as an
// assumption in the evidence (x.noteLib).

var effectFreePkgs = map[string]bool{
	"github.com/buzzfeed/sso/internal/pkg/logging": true,
	"github.com/sirupsen/logrus":                   true,
	"github.com/datadog/datadog-go/statsd":         true,
	"log":                                          true,
}

var unixEpochT = Term{"62135596800000000000", SInt} // ns between year 1 and 1970 (Go's zero time is year 1)

func lowerOf(st *State, t Term) Term {
	if isStrLit(t) {
		if s, ok := unStrLit(t); ok {
			return StrLit(strings.ToLower(s))
		}
	}
	return reg.uf("sf_lower", SStr, t)
}

func unStrLit(t Term) (string, bool) {
	if !isStrLit(t) {
		return "", false
	}
	s := t.S[1 : len(t.S)-1]
	if strings.Contains(s, `\u{`) {
		return "", false
	}
	return strings.ReplaceAll(s, `""`, `"`), true
}

func (x *Exec) libStatic(st *State, f *Frame, callee *ssa.Function, c *ssa.CallCommon, args []Val) (Val, bool) {
	name := callee.String()
	pkg := fnPkgPath(callee)
	sc := func(i int) Term { return args[i].(Sc).T }
	switch name {
	case "strings.ToLower":
		x.noteLib("strings.ToLower: uninterpreted, idempotent (literals folded through the real function)")
		return Sc{lowerOf(st, sc(0))}, true
	case "strings.HasPrefix":
		return Sc{App(SBool, "str.prefixof", sc(1), sc(0))}, true
	case "strings.HasSuffix":
		return Sc{App(SBool, "str.suffixof", sc(1), sc(0))}, true
	case "strings.Contains":
		return Sc{App(SBool, "str.contains", sc(0), sc(1))}, true
	case "strings.Index":
		return Sc{App(SInt, "str.indexof", sc(0), sc(1), IntLit(0))}, true
	case "strings.TrimSpace":
		x.noteLib("strings.TrimSpace: the uninterpreted spec function trimSpace")
		return Sc{reg.uf("sf_trimSpace", SStr, sc(0))}, true
	case "strings.ToUpper", "strings.Title", "net/url.QueryEscape", "net/url.PathEscape", "html.EscapeString":
		x.noteLib(name + ": uninterpreted pure function")
		return Sc{reg.uf("lib"+mangle(name)[1:], SStr, sc(0))}, true
	case "strings.TrimPrefix":
		has := App(SBool, "str.prefixof", sc(1), sc(0))
		return Sc{Ite(has, App(SStr, "str.substr", sc(0), App(SInt, "str.len", sc(1)), Sub(App(SInt, "str.len", sc(0)), App(SInt, "str.len", sc(1)))), sc(0))}, true
	case "strings.TrimSuffix":
		has := App(SBool, "str.suffixof", sc(1), sc(0))
		return Sc{Ite(has, App(SStr, "str.substr", sc(0), IntLit(0), Sub(App(SInt, "str.len", sc(0)), App(SInt, "str.len", sc(1)))), sc(0))}, true
	case "strings.Trim", "strings.TrimRight", "strings.Repeat":
		x.noteLib(name + ": uninterpreted pure function")
		var ts []Term
		for _, a := range args {
			ts = append(ts, st.flatten(a)...)
		}
		return Sc{reg.uf("lib"+mangle(name)[1:], SStr, ts...)}, true
	case "strings.Replace", "strings.ReplaceAll":
		x.noteLib(name + ": uninterpreted pure function")
		var ts []Term
		for _, a := range args {
			ts = append(ts, st.flatten(a)...)
		}
		return Sc{reg.uf("lib"+mangle(name)[1:], SStr, ts...)}, true
	case "strings.EqualFold":
		// Unicode simple case folding is coarser than comparing lower-cased strings ("ſ" folds to "s", "K" to "k"):
		// equal lower-casings imply EqualFold, not the other way round
		x.noteLib("strings.EqualFold: uninterpreted predicate implied by equal lower-casings (Unicode folding is coarser than ToLower)")
		ef := reg.uf("lib_equalfold", SBool, sc(0), sc(1))
		st.assume(Implies(Eq(lowerOf(st, sc(0)), lowerOf(st, sc(1))), ef))
		return Sc{ef}, true
	case "strings.Split":
		x.noteLib("strings.Split: result has Count+1 >= 1 elements; sep absent ==> [s]; two elements ==> s == a + sep + b with sep in neither; the first element is sep-free and s starts with it + sep; elements otherwise unknown")
		r := st.newRef("split")
		n := reg.freshConst("split_n", SInt)
		st.assume(Cmp(">=", n, IntLit(1)))
		res := SliceV{r, IntLit(0), n, types.Typ[types.String]}
		e0 := st.loadAt(ElemAddr{r, IntLit(0), types.Typ[types.String]}, types.Typ[types.String]).(Sc).T
		nosep := Not(App(SBool, "str.contains", sc(0), sc(1)))
		st.assume(Implies(And(nosep, Not(Eq(sc(1), StrLit("")))), And(Eq(n, IntLit(1)), Eq(e0, sc(0)))))
		st.assume(Implies(Not(nosep), Cmp(">=", n, IntLit(2))))
		// exactly two parts: s == parts[0] + sep + parts[1], and sep occurs in neither part
		e1 := st.loadAt(ElemAddr{r, IntLit(1), types.Typ[types.String]}, types.Typ[types.String]).(Sc).T
		st.assume(Implies(And(Eq(n, IntLit(2)), Not(Eq(sc(1), StrLit("")))), And(Eq(sc(0), strConcat(strConcat(e0, sc(1)), e1)),
			Not(App(SBool, "str.contains", e0, sc(1))), Not(App(SBool, "str.contains", e1, sc(1))))))
		// the first part never contains the separator and is a prefix of s followed by it
		st.assume(Implies(And(Cmp(">=", n, IntLit(2)), Not(Eq(sc(1), StrLit("")))), And(App(SBool, "str.prefixof", strConcat(e0, sc(1)), sc(0)), Not(App(SBool, "str.contains", e0, sc(1))))))
		// the parts are a function of (s, sep): spec functions splitCount / splitPart
		st.assume(Eq(n, reg.uf("sf_splitCount", SInt, sc(0), sc(1))))
		eh := st.heap("E|string|", []Sort{SInt, SInt}, SStr)
		reg.declare("sf_splitPart", "(declare-fun sf_splitPart (String String Int) String)")
		st.asserts = append(st.asserts, fmt.Sprintf("(forall ((j Int)) (! (= (select (select %s %s) j) (sf_splitPart %s %s j)) :pattern ((select (select %s %s) j))))", eh.Name, r.S, sc(0).S, sc(1).S, eh.Name, r.S))
		return res, true
	case "strings.SplitN":
		if n, ok := isIntLit(sc(2)); ok && n == 2 {
			x.noteLib("strings.SplitN(s, sep, 2): [s] when sep does not occur, else [a, b] with s == a + sep + b and sep not in a")
			r := st.newRef("splitn")
			ln := reg.freshConst("splitn_n", SInt)
			strT := types.Typ[types.String]
			a := st.loadAt(ElemAddr{r, IntLit(0), strT}, strT).(Sc).T
			b := st.loadAt(ElemAddr{r, IntLit(1), strT}, strT).(Sc).T
			has := App(SBool, "str.contains", sc(0), sc(1))
			st.assume(Implies(Not(Eq(sc(1), StrLit(""))), And(
				Implies(has, And(Eq(ln, IntLit(2)), Eq(sc(0), strConcat(strConcat(a, sc(1)), b)), Not(App(SBool, "str.contains", a, sc(1))))),
				Implies(Not(has), And(Eq(ln, IntLit(1)), Eq(a, sc(0)))))))
			st.assume(And(Cmp(">=", ln, IntLit(1)), Cmp("<=", ln, IntLit(2))))
			// ... functionally: the cut is at the first occurrence of sep
			ix := App(SInt, "str.indexof", sc(0), sc(1), IntLit(0))
			sl := App(SInt, "str.len", sc(1))
			st.assume(Implies(And(has, Not(Eq(sc(1), StrLit("")))), And(
				Eq(a, App(SStr, "str.substr", sc(0), IntLit(0), ix)),
				Eq(b, App(SStr, "str.substr", sc(0), Add(ix, sl), Sub(Sub(App(SInt, "str.len", sc(0)), ix), sl))))))
			return SliceV{r, IntLit(0), ln, strT}, true
		}
	case "strings.Join":
		sv := args[0].(SliceV)
		x.noteLib("strings.Join: uninterpreted function of (elements, offset, length, separator); join of 0 elements is \"\", of 1 element is that element")
		h := st.heap("E|string|", []Sort{SInt, SInt}, SStr)
		reg.declare("sf_join", "(declare-fun sf_join ((Array Int String) Int String) String)")
		row := fmt.Sprintf("(select %s %s)", h.Name, sv.Arr.S)
		t := Term{fmt.Sprintf("(sf_join %s %s %s)", row, sv.Len.S, sc(1).S), SStr}
		st.assume(Implies(Eq(sv.Len, IntLit(0)), Eq(t, StrLit(""))))
		st.assume(Implies(Eq(sv.Len, IntLit(1)), Eq(t, Term{fmt.Sprintf("(select %s %s)", row, sv.Off.S), SStr})))
		return Sc{t}, true
	case "fmt.Sprintf":
		return x.sprintf(st, args), true
	case "fmt.Sprint":
		// fmt.Sprint of a single integer is its decimal representation
		if va, ok := args[0].(SliceV); ok {
			if n, ok := isIntLit(va.Len); ok && n == 1 {
				el := st.loadAt(ElemAddr{va.Arr, IntLit(0), va.Elem}, va.Elem).(IfaceV)
				if tg, ok := isIntLit(el.Tag); ok {
					if t := reg.tagType(tg); t != nil {
						if b, ok := t.Underlying().(*types.Basic); ok && b.Info()&types.IsInteger != 0 {
							x.noteLib("fmt.Sprint(int) is strconv.Itoa")
							return Sc{itoa(el.Pay)}, true
						}
						if b, ok := t.Underlying().(*types.Basic); ok && b.Info()&types.IsString != 0 {
							return Sc{unbox(st, el, types.Typ[types.String]).(Sc).T}, true
						}
					}
				}
			}
		}
		return Sc{reg.freshConst("sprint", SStr)}, true
	case "fmt.Sprintln":
		return Sc{reg.freshConst("sprint", SStr)}, true
	case "fmt.Errorf", "errors.New", "golang.org/x/xerrors.Errorf", "golang.org/x/xerrors.New":
		r := st.newRef("err")
		return IfaceV{reg.typeTag(types.NewPointer(types.Universe.Lookup("error").Type())), r}, true
	case "fmt.Printf", "fmt.Println", "fmt.Print", "fmt.Fprintf", "fmt.Fprintln", "fmt.Fprint":
		return x.freshResults(st, callee.Signature, "fmt"), true
	case "strconv.Itoa":
		return Sc{itoa(sc(0))}, true
	case "strconv.FormatInt":
		if b, ok := isIntLit(sc(1)); ok && b == 10 {
			return Sc{itoa(sc(0))}, true
		}
		return Sc{reg.uf("lib_formatint", SStr, sc(0), sc(1))}, true
	case "strconv.Atoi":
		x.noteLib("strconv.Atoi/ParseInt: err == nil ==> result == atoi(s) with atoi(itoa(i)) == i")
		return TupleV{[]Val{Sc{atoiT(st, sc(0))}, errIf(st, Not(reg.uf("sf_atoi_ok", SBool, sc(0))), "atoi")}}, true
	case "strconv.ParseInt":
		if b, ok := isIntLit(sc(1)); ok && b == 10 {
			return TupleV{[]Val{Sc{atoiT(st, sc(0))}, errIf(st, Not(reg.uf("sf_atoi_ok", SBool, sc(0))), "atoi")}}, true
		}
	case "time.Now":
		st.advanceClock()
		x.noteLib("time.Now: ghost clock, monotone non-decreasing, positive")
		st.assume(Cmp(">", st.clock, IntLit(0)))
		return Sc{st.clock}, true
	case "time.Since":
		st.advanceClock()
		return Sc{Sub(st.clock, sc(0))}, true
	case "time.Unix":
		return Sc{Add(Add(unixEpochT, App(SInt, "*", sc(0), IntLit(1000000000))), sc(1))}, true
	case "(time.Time).Unix":
		return Sc{App(SInt, "div", Sub(sc(0), unixEpochT), IntLit(1000000000))}, true
	case "(time.Time).Before":
		return Sc{Cmp("<", sc(0), sc(1))}, true
	case "(time.Time).After":
		return Sc{Cmp(">", sc(0), sc(1))}, true
	case "(time.Time).Equal":
		return Sc{Eq(sc(0), sc(1))}, true
	case "(time.Time).Add":
		return Sc{Add(sc(0), sc(1))}, true
	case "(time.Time).Sub":
		return Sc{Sub(sc(0), sc(1))}, true
	case "(time.Time).IsZero":
		return Sc{Eq(sc(0), IntLit(0))}, true
	case "(time.Time).UTC", "(time.Time).Local", "(time.Time).Round":
		return Sc{sc(0)}, true
	case "(time.Time).Truncate":
		x.noteLib("time.Time.Truncate(d): t - t mod d for d > 0 (time as integer nanoseconds)")
		d := sc(1)
		if n, ok := isIntLit(d); ok && n > 0 {
			return Sc{Sub(sc(0), App(SInt, "mod", sc(0), d))}, true
		}
		r := reg.uf("sf_trunc", SInt, sc(0), d)
		st.assume(Implies(Cmp(">", d, IntLit(0)), And(Cmp("<=", r, sc(0)), Cmp("<", Sub(sc(0), d), r))))
		st.assume(Implies(Cmp("<=", d, IntLit(0)), Eq(r, sc(0))))
		return Sc{r}, true
	case "(time.Duration).Seconds", "(time.Duration).Minutes", "(time.Duration).Hours":
		return Sc{reg.uf("lib"+mangle(name)[1:], SInt, sc(0))}, true
	case "(time.Duration).String", "(time.Time).String", "(time.Time).Format":
		return Sc{reg.freshConst("timestr", SStr)}, true
	case "(*sync.Mutex).Lock", "(*sync.RWMutex).Lock", "(*sync.RWMutex).RLock":
		x.lockOp(st, f, args[0].(PtrV).A, true)
		if ref, _, field, ok := guardKey(args[0].(PtrV).A); ok {
			if strings.HasSuffix(name, "RLock") {
				st.ghost["rl:"+ref.S+"."+field] = TTrue // shared mode: guarded state may be read, not written
			} else {
				delete(st.ghost, "rl:"+ref.S+"."+field)
			}
		}
		return nil, true
	case "(*sync.Mutex).Unlock", "(*sync.RWMutex).Unlock", "(*sync.RWMutex).RUnlock":
		x.lockOp(st, f, args[0].(PtrV).A, false)
		return nil, true
	case "(*sync.WaitGroup).Add", "(*sync.WaitGroup).Done", "(*sync.WaitGroup).Wait":
		x.noteLib("sync.WaitGroup: no effect on modelled state (happens-before of Wait after Done is assumed)")
		return nil, true
	case "github.com/imdario/mergo.Merge":
		if v, ok := x.mergoMerge(st, args); ok {
			return v, true
		}
		return nil, false
	case "reflect.DeepEqual":
		// two pointers to the same struct type whose fields are all scalars: field-wise equality of the pointees
		a, ok1 := args[0].(IfaceV)
		b, ok2 := args[1].(IfaceV)
		if ok1 && ok2 {
			ta, oka := isIntLit(a.Tag)
			tb, okb := isIntLit(b.Tag)
			if oka && okb && ta == tb && ta != 0 {
				if pt, ok := reg.tagType(ta).(*types.Pointer); ok {
					if stt, ok := pt.Elem().Underlying().(*types.Struct); ok {
						scalar := true
						for i := 0; i < stt.NumFields(); i++ {
							if _, ok := stt.Field(i).Type().Underlying().(*types.Basic); !ok {
								scalar = false
							}
						}
						if scalar {
							va := st.flatten(st.loadAt(ObjAddr{a.Pay, pt.Elem()}, pt.Elem()))
							vb := st.flatten(st.loadAt(ObjAddr{b.Pay, pt.Elem()}, pt.Elem()))
							var cs []Term
							for i := range va {
								cs = append(cs, Eq(va[i], vb[i]))
							}
							x.noteLib("reflect.DeepEqual on two *T with scalar fields: field-wise equality (both non-nil)")
							return Sc{And(append(cs, Not(Eq(a.Pay, IntLit(0))), Not(Eq(b.Pay, IntLit(0))))...)}, true
						}
					}
				}
			}
		}
		return Sc{reg.freshConst("deepequal", SBool)}, true
	case "bytes.Equal", "crypto/subtle.ConstantTimeCompare", "crypto/hmac.Equal":
		eq := Eq(sc(0), sc(1))
		if name == "crypto/subtle.ConstantTimeCompare" {
			return Sc{Ite(eq, IntLit(1), IntLit(0))}, true
		}
		return Sc{eq}, true
	}
	if v, ok := x.libHTTP(st, f, name, callee, c, args); ok {
		return v, true
	}
	if effectFreePkgs[pkg] {
		x.noteLib("effect-free (logging/metrics): package " + pkg)
		return x.freshResults(st, callee.Signature, "log"), true
	}
	return nil, false
}

func itoa(t Term) Term {
	if n, ok := isIntLit(t); ok {
		return StrLit(fmt.Sprint(n))
	}
	return reg.uf("sf_itoa", SStr, t)
}

func atoiT(st *State, s Term) Term {
	r := reg.uf("sf_atoi", SInt, s)
	return r
}

func errIf(st *State, cond Term, hint string) Val {
	r := reg.freshConst("err_"+hint, SInt)
	tag := reg.freshConst("errtag_"+hint, SInt)
	st.assume(Eq(Eq(tag, IntLit(0)), Not(cond)))
	st.assume(Cmp(">=", tag, IntLit(0)))
	_ = r
	return IfaceV{tag, Ite(cond, r, IntLit(0))}
}

// sprintf models fmt.Sprintf for constant formats made of literal text and %s/%v/%d/%q verbs.
func (x *Exec) sprintf(st *State, args []Val) Val {
	f, ok := args[0].(Sc)
	if !ok {
		return Sc{reg.freshConst("sprintf", SStr)}
	}
	format, ok := unStrLit(f.T)
	va, ok2 := args[1].(SliceV)
	if !ok || !ok2 {
		return Sc{reg.freshConst("sprintf", SStr)}
	}
	n, ok := isIntLit(va.Len)
	if !ok {
		return Sc{reg.freshConst("sprintf", SStr)}
	}
	var parts []Term
	argi := int64(0)
	lit := ""
	flush := func() {
		if lit != "" {
			parts = append(parts, StrLit(lit))
			lit = ""
		}
	}
	for i := 0; i < len(format); i++ {
		if format[i] != '%' {
			lit += string(format[i])
			continue
		}
		if i+1 >= len(format) {
			return Sc{reg.freshConst("sprintf", SStr)}
		}
		v := format[i+1]
		i++
		if v == '%' {
			lit += "%"
			continue
		}
		if argi >= n {
			return Sc{reg.freshConst("sprintf", SStr)}
		}
		el := st.loadAt(ElemAddr{va.Arr, Add(va.Off, IntLit(argi)), va.Elem}, va.Elem).(IfaceV)
		argi++
		flush()
		strTag := reg.typeTag(types.Typ[types.String])
		switch v {
		case 's', 'v':
			// only exact when the dynamic type is string
			if tg, ok := isIntLit(el.Tag); ok {
				if lt, _ := isIntLit(strTag); tg == lt {
					parts = append(parts, unbox(st, el, types.Typ[types.String]).(Sc).T)
					continue
				}
				if lt, _ := isIntLit(reg.typeTag(types.Typ[types.Int])); tg == lt {
					parts = append(parts, itoa(el.Pay))
					continue
				}
			}
			parts = append(parts, reg.uf("sf_fmtv", SStr, el.Tag, el.Pay))
		case 'd':
			parts = append(parts, itoa(el.Pay))
		default:
			parts = append(parts, reg.uf("sf_fmt_"+string(v), SStr, el.Tag, el.Pay))
		}
	}
	flush()
	x.noteLib("fmt.Sprintf with a constant format: concatenation of literal text and arguments (%s of a string is the string; other verbs uninterpreted)")
	if len(parts) == 0 {
		return Sc{StrLit("")}
	}
	t := parts[0]
	for _, p := range parts[1:] {
		t = strConcat(t, p)
	}
	return Sc{t}
}

func (x *Exec) libInvoke(st *State, key string, c *ssa.CallCommon, args []Val) (Val, bool) {
	switch key {
	case "(github.com/benbjohnson/clock.Clock).Now":
		st.advanceClock()
		x.noteLib("clock.Clock.Now: the ghost clock (monotone non-decreasing, positive)")
		st.assume(Cmp(">", st.clock, IntLit(0)))
		return Sc{st.clock}, true
	case "(net/http.ResponseWriter).Header":
		rw := args[0].(IfaceV)
		st.assume(Cmp(">", rw.Pay, IntLit(0))) // the call returned: the writer is an object (a method on a nil writer panics)
		h := st.load("X|$hdr", []Sort{SInt}, SInt, []Term{rw.Pay})
		st.assume(Cmp(">", h, IntLit(0)))
		x.noteLib("ResponseWriter.Header(): the response's header map (ghost field $hdr, non-nil)")
		return Sc{h}, true
	case "(net/http.ResponseWriter).WriteHeader":
		rw := args[0].(IfaceV)
		x.setStatus(st, rw.Pay, args[1].(Sc).T)
		return nil, true
	case "(net/http.ResponseWriter).Write":
		rw := args[0].(IfaceV)
		x.setStatus(st, rw.Pay, IntLit(200))
		x.ghostSet(st, "$bodyWritten", SBool, rw.Pay, TTrue)
		if p, ok := args[1].(Sc); ok && p.T.Sort == SStr {
			x.ghostSet(st, "$written", SStr, rw.Pay, strConcat(x.ghostGet(st, "$written", SStr, rw.Pay), p.T))
		}
		n := reg.freshConst("written", SInt)
		return TupleV{[]Val{Sc{n}, st.freshVal(types.Universe.Lookup("error").Type(), "werr")}}, true
	case "(error).Error":
		iv := args[0].(IfaceV)
		return Sc{reg.uf("sf_errmsg", SStr, iv.Tag, iv.Pay)}, true
	}
	return nil, false
}

var _ = constant.MakeInt64

// ---------------------------------------------------------------------------
// net/http ghost model. For a ResponseWriter rw (keyed by its interface payload):
//   $status       0 = not yet written; first write wins
//   $location     Location header set by http.Redirect
//   $hdr          the response header map
//   $bodyWritten  bytes were written through rw.Write

func (x *Exec) ghostGet(st *State, name string, srt Sort, ref Term) Term {
	return st.load("X|"+name, []Sort{SInt}, srt, []Term{ref})
}

func (x *Exec) ghostSet(st *State, name string, srt Sort, ref Term, v Term) {
	st.store("X|"+name, []Sort{SInt}, srt, []Term{ref}, v)
}

func (x *Exec) setStatus(st *State, rw Term, code Term) {
	cur := x.ghostGet(st, "$status", SInt, rw)
	x.ghostSet(st, "$status", SInt, rw, Ite(Eq(cur, IntLit(0)), code, cur))
	x.noteLib("net/http response status: first WriteHeader/Write/Error/Redirect wins (ghost field $status)")
}

func canonHeader(t Term) Term {
	if s, ok := unStrLit(t); ok {
		return StrLit(textproto.CanonicalMIMEHeaderKey(s))
	}
	r := reg.uf("sf_canonhdr", SStr, t)
	return r
}

var strSliceT = types.NewSlice(types.Typ[types.String])

func (x *Exec) libHTTP(st *State, f *Frame, name string, callee *ssa.Function, c *ssa.CallCommon, args []Val) (Val, bool) {
	sc := func(i int) Term { return args[i].(Sc).T }
	strT := types.Typ[types.String]
	switch name {
	case "net/http.CanonicalHeaderKey", "net/textproto.CanonicalMIMEHeaderKey":
		x.noteLib("http.CanonicalHeaderKey: the spec function canonhdr (literals folded through the real function)")
		return Sc{canonHeader(sc(0))}, true
	case "(net/http.Header).Set", "(net/url.Values).Set":
		key := sc(1)
		if name == "(net/http.Header).Set" {
			key = canonHeader(key)
			x.noteLib("http.Header.Set/Get/Del/Add: map operations on the canonical key (literal keys folded through textproto.CanonicalMIMEHeaderKey)")
		}
		r := st.newRef("hdrval")
		st.storeAt(ElemAddr{r, IntLit(0), strT}, strT, Sc{sc(2)})
		x.mapStore(st, sc(0), strT, strSliceT, key, SliceV{r, IntLit(0), IntLit(1), strT})
		return nil, true
	case "(net/http.Header).Add", "(net/url.Values).Add":
		key := sc(1)
		if name == "(net/http.Header).Add" {
			key = canonHeader(key)
		}
		old := x.mapGet(st, sc(0), strT, strSliceT, key).(SliceV)
		nv := x.append1(st, old, Sc{sc(2)})
		x.mapStore(st, sc(0), strT, strSliceT, key, nv)
		return nil, true
	case "(net/http.Header).Del", "(net/url.Values).Del":
		key := sc(1)
		if name == "(net/http.Header).Del" {
			key = canonHeader(key)
		}
		x.mapDelete(st, sc(0), strT, strSliceT, key)
		return nil, true
	case "(net/http.Header).Get", "(net/url.Values).Get":
		key := sc(1)
		if name == "(net/http.Header).Get" {
			key = canonHeader(key)
		}
		// a nil map reads as empty
		v := x.mapGet(st, sc(0), strT, strSliceT, key).(SliceV)
		e0 := st.loadAt(ElemAddr{v.Arr, IntLit(0), strT}, strT).(Sc).T
		return Sc{Ite(And(Not(Eq(sc(0), IntLit(0))), Cmp(">", v.Len, IntLit(0))), e0, StrLit(""))}, true
	case "net/http.Error":
		rw := args[0].(IfaceV)
		x.setStatus(st, rw.Pay, sc(2))
		x.ghostSet(st, "$bodyWritten", SBool, rw.Pay, TTrue)
		return nil, true
	case "net/http.Redirect":
		rw := args[0].(IfaceV)
		cur := x.ghostGet(st, "$status", SInt, rw.Pay)
		x.ghostSet(st, "$location", SStr, rw.Pay, Ite(Eq(cur, IntLit(0)), sc(2), x.ghostGet(st, "$location", SStr, rw.Pay)))
		x.ghostSet(st, "$redirects", SInt, rw.Pay, Add(x.ghostGet(st, "$redirects", SInt, rw.Pay), IntLit(1)))
		x.setStatus(st, rw.Pay, sc(3))
		x.noteLib("http.Redirect(rw, req, url, code): sets $location to url (up to net/http's documented normalisation of relative URLs) and the status, if nothing was written yet")
		return nil, true
	case "net/http.SetCookie":
		// the cookie object passed is recorded through the call anchor; the Set-Cookie header itself is not modelled
		x.noteLib("http.SetCookie: the cookie is what the anchored call was given; serialisation into Set-Cookie is not modelled")
		return nil, true
	case "net/http.StatusText":
		return Sc{reg.uf("lib_statustext", SStr, sc(0))}, true
	}
	return nil, false
}

// ---------------------------------------------------------------------------
// github.com/imdario/mergo v0.3.7 — Merge(dst, src, opts...) modelled field by field from the static
// type (the library itself works by reflection and is not verified: this model IS the assumed contract,
// transcribed from deepMerge/isEmptyValue):
//   scalar/string/slice field: src non-empty && (override || dst empty)  ==> dst = src
//   pointer field:             src nil: nothing; dst nil or override: dst = src (the pointer itself —
//                              with override a pointed-to struct is replaced WHOLESALE); else merge pointees
//   struct field (by value):   recursively; unexported fields are never set
//   map field:                 src empty: nothing; dst nil/empty: a copy of src; else an unspecified merge
//   interface field:           src nil: nothing; dst nil or override: dst = src; else unchanged (approximation)
func (x *Exec) mergoMerge(st *State, args []Val) (Val, bool) {
	di, ok1 := args[0].(IfaceV)
	si, ok2 := args[1].(IfaceV)
	if !ok1 || !ok2 {
		return nil, false
	}
	dt, okd := isIntLit(di.Tag)
	stg, oks := isIntLit(si.Tag)
	if !okd || !oks {
		return nil, false
	}
	dpt, ok := reg.tagType(dt).(*types.Pointer)
	if !ok {
		return nil, false
	}
	T := dpt.Elem()
	if _, ok := T.Underlying().(*types.Struct); !ok {
		return nil, false
	}
	// override option?
	override := false
	if ov, ok := args[2].(SliceV); ok {
		n, okn := isIntLit(ov.Len)
		if !okn || n > 1 {
			return nil, false
		}
		if n == 1 {
			el := st.loadAt(ElemAddr{ov.Arr, IntLit(0), ov.Elem}, ov.Elem)
			c, ok := el.(*ClosV)
			if !ok || c.Fn.Name() != "WithOverride" {
				return nil, false
			}
			override = true
		}
	}
	var src Val
	srcT := reg.tagType(stg)
	if sp, ok := srcT.(*types.Pointer); ok {
		if !types.Identical(sp.Elem(), T) {
			return nil, false
		}
		src = st.loadAt(ObjAddr{si.Pay, T}, T)
	} else {
		if !types.Identical(srcT, T) {
			return nil, false
		}
		src = unbox(st, si, T)
	}
	x.noteLib("mergo.Merge: assumed field-wise contract transcribed from mergo v0.3.7 deepMerge (see DESIGN.md); with WithOverride a non-nil pointer field of src REPLACES dst's pointer")
	x.mergoDeep(st, ObjAddr{di.Pay, T}, src, T, override, TTrue, 0)
	return IfaceV{IntLit(0), IntLit(0)}, true
}

func emptyOf(st *State, v Val, t types.Type) Term {
	switch x := v.(type) {
	case Sc:
		switch x.T.Sort {
		case SStr:
			return Eq(x.T, StrLit(""))
		case SBool:
			return Not(x.T)
		default:
			return Eq(x.T, IntLit(0))
		}
	case SliceV:
		return Eq(x.Len, IntLit(0))
	case PtrV:
		return Eq(st.addrTerm(x.A), IntLit(0))
	case IfaceV:
		return Eq(x.Tag, IntLit(0))
	}
	return TFalse
}

// mergoDeep merges src into the location dst (of type t) under the path condition guard.
func (x *Exec) mergoDeep(st *State, dst Addr, src Val, t types.Type, override bool, guard Term, depth int) {
	if depth > 6 {
		bail("mergo model: type nesting too deep")
	}
	switch u := t.Underlying().(type) {
	case *types.Struct:
		if isTimeTime(t) {
			break
		}
		sv := src.(StructV)
		for i := 0; i < u.NumFields(); i++ {
			if !u.Field(i).Exported() {
				continue
			}
			x.mergoDeep(st, FldAddr{dst, i, u}, sv.F[i], u.Field(i).Type(), override, guard, depth+1)
		}
		return
	case *types.Pointer:
		cur := st.loadAt(dst, t).(PtrV)
		sp := src.(PtrV)
		dref, sref := st.addrTerm(cur.A), st.addrTerm(sp.A)
		srcNil := Eq(sref, IntLit(0))
		dstNil := Eq(dref, IntLit(0))
		var set Term
		if override {
			set = Not(srcNil)
		} else {
			set = And(Not(srcNil), dstNil)
		}
		st.storeAt(dst, t, PtrV{ObjAddr{Ite(And(guard, set), sref, dref), u.Elem()}})
		if !override {
			if _, ok := u.Elem().Underlying().(*types.Struct); ok {
				// both non-nil: merge the pointees
				g2 := And(guard, Not(srcNil), Not(dstNil))
				if g2.S != "false" {
					st.guarded++
					x.mergoDeep(st, ObjAddr{dref, u.Elem()}, st.loadAt(ObjAddr{sref, u.Elem()}, u.Elem()), u.Elem(), override, g2, depth+1)
					st.guarded--
				}
			}
		}
		return
	case *types.Map:
		cur := st.loadAt(dst, t).(Sc).T
		sm := src.(Sc).T
		kt, vt := u.Key(), u.Elem()
		srcEmpty := Or(Eq(sm, IntLit(0)), Eq(x.mapLen(st, sm, kt, vt), IntLit(0)))
		dstEmpty := Or(Eq(cur, IntLit(0)), Eq(x.mapLen(st, cur, kt, vt), IntLit(0)))
		nm := st.newRef("mergomap")
		// when dst is empty the new map is a copy of src; otherwise its contents are unspecified
		fam := mapFam(kt, vt)
		ks := keySort(kt)
		dom := st.heap("MD|"+fam, []Sort{SInt, ks}, SBool)
		st.asserts = append(st.asserts, fmt.Sprintf("(=> %s (= (select %s %s) (select %s %s)))", dstEmpty.S, dom.Name, nm.S, dom.Name, sm.S))
		for _, l := range leavesOf(vt) {
			vh := st.heap("MV|"+fam+"|"+l.Path, []Sort{SInt, ks}, l.Sort)
			st.asserts = append(st.asserts, fmt.Sprintf("(=> %s (= (select %s %s) (select %s %s)))", dstEmpty.S, vh.Name, nm.S, vh.Name, sm.S))
		}
		st.storeAt(dst, t, Sc{Ite(And(guard, Not(srcEmpty)), nm, cur)})
		return
	case *types.Interface:
		cur := st.loadAt(dst, t).(IfaceV)
		si := src.(IfaceV)
		srcNil := Eq(si.Tag, IntLit(0))
		dstNil := Eq(cur.Tag, IntLit(0))
		var set Term
		if override {
			set = Not(srcNil)
		} else {
			set = And(Not(srcNil), dstNil)
		}
		c := And(guard, set)
		st.storeAt(dst, t, IfaceV{Ite(c, si.Tag, cur.Tag), Ite(c, si.Pay, cur.Pay)})
		return
	}
	// scalars, strings, slices
	cur := st.loadAt(dst, t)
	var set Term
	if override {
		set = Not(emptyOf(st, src, t))
	} else {
		set = And(Not(emptyOf(st, src, t)), emptyOf(st, cur, t))
	}
	c := And(guard, set)
	cl, sl := st.flatten(cur), st.flatten(src)
	var out []Term
	for i := range cl {
		out = append(out, Ite(c, sl[i], cl[i]))
	}
	nv, _ := unflatten(t, out)
	st.storeAt(dst, t, nv)
}
