package main

import (
	"encoding/json"
	"flag"
	"fmt"
	"os"
	"path/filepath"
	"sort"
	"strconv"
	"strings"
	"time"
)

type PropCfg struct {
	Functions   []string `json:"functions"`
	Lemmas      []string `json:"lemmas"`
	Assumptions []string `json:"assumptions"`
	NotDecided  []string `json:"not_decided"`
	Bounded     []string `json:"bounded_standins"`
	TypeChecks  []string `json:"type_checks"` // names of go/types-level obligation generators
	NilDeref    bool     `json:"nil_deref"`   // also prove that pointers returned by calls are non-nil where dereferenced
	Sweep       []string `json:"sweep"`       // packages (short path) whose contract-less functions get the safety obligations only
}

type Obligation struct {
	Name      string
	Kind      string
	Clause    string
	Props     []string
	VCs       []*VC
	Status    string // discharged, failed, undecided
	Failed    []*VC
	Solvers   map[string]int
	Time      float64
	MaxTime   float64
	Confirmed int
	replayed  bool
}

func main() {
	if len(os.Args) < 2 {
		fmt.Fprintln(os.Stderr, "usage: ssovc check|fn|list ...")
		os.Exit(2)
	}
	switch os.Args[1] {
	case "check":
		os.Exit(cmdCheck(os.Args[2:]))
	case "feas":
		os.Exit(cmdFeas(os.Args[2:]))
	case "fn":
		os.Exit(cmdFn(os.Args[2:]))
	default:
		fmt.Fprintln(os.Stderr, "unknown command", os.Args[1])
		os.Exit(2)
	}
}

func verifDir() string {
	if d := os.Getenv("VERIF_DIR"); d != "" {
		return d
	}
	exe, err := os.Executable()
	if err == nil {
		d := filepath.Dir(filepath.Dir(exe))
		if _, err := os.Stat(filepath.Join(d, "spec")); err == nil {
			return d
		}
	}
	return "/verif"
}

// outBase is where out/ and evidence/ are written; scratch runs (selftest) redirect it.
func outBase() string {
	if d := os.Getenv("VERIF_SCRATCH_OUT"); d != "" {
		return d
	}
	return verifDir()
}

func repoDir() string {
	if d := os.Getenv("VERIF_REPO"); d != "" {
		return d
	}
	return "/repo"
}

func groupObligations(vcs []*VC) []*Obligation {
	m := map[string]*Obligation{}
	var order []string
	for _, vc := range vcs {
		o, ok := m[vc.Ob]
		if !ok {
			o = &Obligation{Name: vc.Ob, Kind: vc.Kind, Clause: vc.Clause, Props: vc.Props, Solvers: map[string]int{}}
			m[vc.Ob] = o
			order = append(order, vc.Ob)
		}
		o.VCs = append(o.VCs, vc)
	}
	sort.Strings(order)
	var out []*Obligation
	for _, n := range order {
		o := m[n]
		o.Status = "discharged"
		minConf := 99
		for _, vc := range o.VCs {
			o.Time += vc.Time
			if vc.Time > o.MaxTime {
				o.MaxTime = vc.Time
			}
			good := vc.Verdict == "unsat"
			if vc.Kind == "cover" {
				good = vc.Verdict == "sat"
			}
			if vc.Verdict == "skipped" {
				continue
			}
			if good {
				o.Solvers[vc.Solver]++
				if len(vc.Confirmed) < minConf {
					minConf = len(vc.Confirmed)
				}
			} else {
				o.Status = "failed"
				o.Failed = append(o.Failed, vc)
			}
		}
		if o.Kind == "cover" {
			any := false
			for _, vc := range o.VCs {
				if vc.Verdict == "sat" {
					any = true
				}
			}
			if any {
				o.Status = "discharged"
				o.Failed = nil
			}
		}
		o.Confirmed = minConf
		out = append(out, o)
	}
	return out
}

func cmdFn(args []string) int {
	fs := flag.NewFlagSet("fn", flag.ExitOnError)
	name := fs.String("name", "", "function short name")
	verbose := fs.Bool("v", false, "verbose")
	keep := fs.Bool("keep", false, "keep smt files")
	secs := fs.Int("t", 10, "timeout")
	fs.Parse(args)
	eng, err := loadEngine(repoDir(), filepath.Join(verifDir(), "spec"), []string{"./internal/..."})
	if err != nil {
		fmt.Println("load error:", err)
		return 2
	}
	for _, e := range eng.db.Errors {
		fmt.Println("contract error:", e)
	}
	t0 := time.Now()
	var res *FnResult
	if strings.HasPrefix(*name, "lemma/") {
		for _, c := range eng.lemmas {
			if "lemma/"+c.FnName == *name {
				res = eng.verifyLemma(c)
			}
		}
		if res == nil {
			fmt.Println("no such lemma", *name)
			return 2
		}
	} else {
		fn := eng.fnByShort(*name)
		if fn == nil {
			fmt.Println("no such function", *name)
			return 2
		}
		res = eng.verifyFunction(fn, eng.contractFor(fn), 4096)
	}
	fmt.Printf("%s: paths=%d vcs=%d gen=%.2fs err=%q\n", res.Fn, res.Paths, len(res.VCs), time.Since(t0).Seconds(), res.Err)
	out := filepath.Join(verifDir(), "out", "fn")
	os.RemoveAll(out)
	solveAll(res.VCs, solveCfg{outDir: out, quickSec: 3, fullSec: *secs, jobs: 16})
	obs := groupObligations(res.VCs)
	bad := 0
	for _, o := range obs {
		fmt.Printf("  %-11s %-70s vcs=%d %.2fs %v\n", o.Status, o.Name, len(o.VCs), o.Time, o.Solvers)
		if o.Status != "discharged" {
			bad++
			for _, vc := range o.Failed {
				fmt.Printf("      %s via %s trace=%s file=%s\n        clause: %s\n", vc.Verdict, vc.Solver, vc.Trace, vc.File, vc.Clause)
				if *verbose {
					fmt.Println(indent(firstLines(vc.Raw, 60), "        "))
				}
			}
		}
	}
	if *verbose {
		fmt.Println("inlined:", res.Inlined)
		fmt.Println("libs:", res.Libs)
		fmt.Println("unknown calls:", res.Unknown)
	}
	if os.Getenv("SSOVC_KEEP") != "" {
		for _, vc := range res.VCs {
			if vc.File != "" {
				fmt.Printf("KEEP %s %s trace=%s\n", vc.Ob, vc.File, vc.Trace)
			}
		}
	}
	if !*keep && bad == 0 {
		os.RemoveAll(out)
	}
	if bad > 0 {
		return 1
	}
	return 0
}

func firstLines(s string, n int) string {
	ls := strings.Split(s, "\n")
	if len(ls) > n {
		ls = append(ls[:n], "...")
	}
	return strings.Join(ls, "\n")
}

func indent(s, p string) string {
	return p + strings.ReplaceAll(s, "\n", "\n"+p)
}

// ---------------------------------------------------------------------------

type KnownFinding struct {
	Kind       string // finding | fixed
	Property   string
	Obligation string
	What       string
}

func loadKnown(path string) []KnownFinding {
	b, err := os.ReadFile(path)
	if err != nil {
		return nil
	}
	var out []KnownFinding
	for _, l := range strings.Split(string(b), "\n") {
		l = strings.TrimSpace(l)
		if l == "" || strings.HasPrefix(l, "#") {
			continue
		}
		var k KnownFinding
		if strings.HasPrefix(l, "finding:") {
			k.Kind = "finding"
			l = strings.TrimSpace(l[8:])
		} else if strings.HasPrefix(l, "fixed:") {
			k.Kind = "fixed"
			l = strings.TrimSpace(l[6:])
		} else {
			continue
		}
		for _, f := range strings.Fields(l) {
			if strings.HasPrefix(f, "property=") {
				k.Property = f[9:]
			} else if strings.HasPrefix(f, "obligation=") {
				k.Obligation = f[11:]
			}
		}
		if i := strings.Index(l, " -- "); i >= 0 {
			k.What = l[i+4:]
		}
		out = append(out, k)
	}
	return out
}

func cmdCheck(args []string) int {
	fs := flag.NewFlagSet("check", flag.ExitOnError)
	prop := fs.String("property", "", "property id")
	tier := fs.String("tier", "quick", "quick|thorough")
	regen := fs.Bool("regen-expected", false, "rewrite spec/expected/<id>.txt from this run")
	fs.Parse(args)
	t0 := time.Now()
	vd := verifDir()
	seed := 0
	if s := os.Getenv("VERIF_SEED"); s != "" {
		seed, _ = strconv.Atoi(s)
	}
	if t := os.Getenv("VERIF_TIER"); t != "" && *tier == "" {
		*tier = t
	}
	undecided := func(reason string) int {
		fmt.Printf("UNDECIDED property=%s reason=%s\n", *prop, reason)
		writeEvidence(vd, *prop, *tier, seed, nil, nil, nil, time.Since(t0).Seconds(), "UNDECIDED: "+reason, nil)
		return 2
	}
	var cfgs map[string]*PropCfg
	b, err := os.ReadFile(filepath.Join(vd, "spec", "props.json"))
	if err != nil {
		return undecided("cannot read spec/props.json")
	}
	if err := json.Unmarshal(b, &cfgs); err != nil {
		return undecided("bad props.json: " + err.Error())
	}
	cfg, ok := cfgs[*prop]
	if !ok {
		return undecided("property not configured")
	}
	if len(haveSolvers()) == 0 {
		return undecided("no SMT solver found")
	}
	eng, err := loadEngine(repoDir(), filepath.Join(vd, "spec"), []string{"./internal/..."})
	if err != nil {
		return undecided("cannot load /repo: " + oneLine(err.Error()))
	}
	if len(eng.hookErr) > 0 {
		return undecided("hooks/comment-only: " + strings.Join(eng.hookErr, "; "))
	}
	if len(eng.db.Errors) > 0 {
		return undecided("contract errors: " + oneLine(strings.Join(eng.db.Errors, "; ")))
	}
	var results []*FnResult
	var all []*VC
	var gone []string
	nilDerefOn = cfg.NilDeref
	for _, name := range cfg.Functions {
		fn := eng.fnByShort(name)
		if fn == nil {
			// the function the contract was written on is gone (renamed, merged into another, or a function literal
			// that no longer exists): none of its obligations can be established on this tree — they are reported
			// as failed by absence against the recorded list of expected obligations
			gone = append(gone, name)
			continue
		}
		con := eng.contractFor(fn)
		if con == nil {
			return undecided("no contract attached to " + name)
		}
		r := eng.verifyFunction(fn, con, 4096)
		if r.Err != "" {
			return undecided(name + ": " + oneLine(r.Err))
		}
		results = append(results, r)
		all = append(all, r.VCs...)
	}
	// safety-only sweep: every function of the listed packages that has no contract of its own is run
	// with the empty contract (no requires, modifies everything) so that only the no-panic obligations
	// (bounds, nil map writes, failed assertions, division) are generated for it.
	for _, sp := range cfg.Sweep {
		fns := eng.fnsOfPkg(sp)
		if len(fns) == 0 {
			return undecided("sweep: no functions found in " + sp)
		}
		for _, fn := range fns {
			if eng.contractFor(fn) != nil {
				continue
			}
			con := &Contract{Key: fn.String(), Kind: "func", FnName: fn.Name(), Pkg: fnPkgPath(fn), HavocAll: true}
			r := eng.verifyFunction(fn, con, 4096)
			if r.Err != "" {
				return undecided("sweep " + shortFn(fn) + ": " + oneLine(r.Err))
			}
			results = append(results, r)
			all = append(all, r.VCs...)
		}
	}
	for _, ln := range cfg.Lemmas {
		var lc *Contract
		for _, c := range eng.lemmas {
			if c.FnName == ln {
				lc = c
			}
		}
		if lc == nil {
			return undecided("lemma not found: " + ln)
		}
		r := eng.verifyLemma(lc)
		if r.Err != "" {
			return undecided("lemma " + ln + ": " + oneLine(r.Err))
		}
		results = append(results, r)
		all = append(all, r.VCs...)
	}
	tobs := typeObligations(eng, cfg, *prop)
	outDir := filepath.Join(outBase(), "out", *prop)
	os.RemoveAll(outDir)
	sc := solveCfg{outDir: filepath.Join(outDir, "smt"), quickSec: 3, fullSec: 10, jobs: 16}
	if *tier == "thorough" {
		sc.fullSec = 60
		sc.twoSolv = true
	}
	// A clause that carries property tags and is recorded as a known finding of one of those properties is out of
	// scope when a different property is checked (the function is shared between properties; the finding is not):
	// it is decided, reported and suppressed under its own property only.
	knownAll := loadKnown(filepath.Join(vd, "known-findings.txt"))
	inScope := all[:0:0]
	tagsOf := map[string][]string{}
	for _, vc := range all {
		if len(vc.Props) > 0 {
			tagsOf[vc.Ob] = vc.Props
		}
	}
	for _, vc := range all {
		drop := false
		base := strings.Replace(vc.Ob, "/cover[ensures.", "/ensures[", 1)
		if len(vc.Props) == 0 {
			vc.Props = tagsOf[base]
		}
		if len(vc.Props) > 0 && !containsStr(vc.Props, *prop) {
			for _, k := range knownAll {
				if k.Kind == "finding" && k.Obligation == base && containsStr(vc.Props, k.Property) {
					drop = true
				}
			}
		}
		if !drop {
			inScope = append(inScope, vc)
		}
	}
	all = inScope
	solveAll(all, sc)
	obs := groupObligations(all)
	obs = append(obs, tobs...)
	sort.Slice(obs, func(i, j int) bool { return obs[i].Name < obs[j].Name })
	// expected obligation set (vacuity guard)
	expPath := filepath.Join(vd, "spec", "expected", *prop+".txt")
	var names []string
	for _, o := range obs {
		names = append(names, o.Name)
	}
	if *regen {
		writeLocals()
		os.MkdirAll(filepath.Dir(expPath), 0o755)
		os.WriteFile(expPath, []byte(strings.Join(names, "\n")+"\n"), 0o644)
	}
	if len(obs) == 0 {
		return undecided("no obligations generated")
	}
	if eb, err := os.ReadFile(expPath); err == nil {
		have := map[string]bool{}
		for _, n := range names {
			have[n] = true
		}
		var missing []string
		for _, n := range strings.Split(strings.TrimSpace(string(eb)), "\n") {
			if n != "" && !have[n] && (!positionalKind(n) || goneFn(gone, n)) {
				missing = append(missing, n)
			}
		}
		if len(missing) > 0 {
			// an obligation that used to exist is gone: report it as failed-by-absence
			for _, n := range missing {
				obs = append(obs, &Obligation{Name: n, Kind: "missing", Status: "failed", Clause: "obligation expected on this tree was not generated (the code that gave rise to it is gone or unreachable)"})
			}
		}
	} else {
		return undecided("no expected-obligation list " + expPath)
	}
	known := loadKnown(filepath.Join(vd, "known-findings.txt"))
	isKnown := func(name string) *KnownFinding {
		for i := range known {
			if known[i].Kind == "finding" && known[i].Property == *prop && known[i].Obligation == name {
				return &known[i]
			}
		}
		return nil
	}
	violations := 0
	var knownHit []string
	var failedNames []string
	engineErr := ""
	for _, o := range obs {
		if o.Status == "discharged" {
			continue
		}
		for _, vc := range o.Failed {
			if vc.Verdict == "error" {
				engineErr = o.Name + ": " + oneLine(firstLines(vc.Raw, 3))
			}
		}
		if k := isKnown(o.Name); k != nil {
			fmt.Printf("KNOWN-FINDING: property=%s %s -- %s\n", *prop, o.Name, k.What)
			knownHit = append(knownHit, o.Name)
			continue
		}
		failedNames = append(failedNames, o.Name)
	}
	if engineErr != "" {
		return undecided("solver/engine error on " + engineErr)
	}
	for _, o := range obs {
		if o.Status == "discharged" || isKnown(o.Name) != nil {
			continue
		}
		violations++
		rp := writeReplay(eng, outDir, *prop, o)
		suffix := ""
		if !o.replayed {
			suffix = " no-failing-input-found"
		}
		fmt.Printf("VIOLATION property=%s replay=%s obligation=%s%s\n", *prop, rp, o.Name, suffix)
	}
	// thorough tier: the witnesses of the defects this property's checks found are run again on the real code —
	// a repaired defect's witness must pass (if it fails while its obligation discharges, the violation is back and
	// the contract no longer sees it), a recorded finding's witness is expected to fail still.
	replayRegression = nil
	if *tier == "thorough" {
		status := map[string]string{}
		for _, o := range obs {
			status[o.Name] = o.Status
		}
		done := map[string]bool{}
		for _, k := range knownAll {
			if k.Property != *prop || done[k.Obligation] {
				continue
			}
			done[k.Obligation] = true
			fo := &Obligation{Name: k.Obligation}
			failedOnCode, detail := tryReplay(eng, outDir, *prop, fo)
			if strings.HasPrefix(detail, "no replay") || strings.HasPrefix(detail, "bad replay") {
				continue
			}
			rec := map[string]interface{}{"obligation": k.Obligation, "entry": k.Kind, "witness_fails_on_this_tree": failedOnCode, "obligation_status": status[k.Obligation]}
			replayRegression = append(replayRegression, rec)
			if k.Kind == "fixed" && failedOnCode && status[k.Obligation] == "discharged" {
				violations++
				fo.Kind, fo.Clause, fo.Status = "replay-regression", "the witness of a repaired defect fails again on this tree although the obligation that found it discharges", "failed"
				fo.Failed = []*VC{{Ob: k.Obligation, Kind: "replay-regression", Verdict: "witness-fails", Raw: detail}}
				fo.VCs = fo.Failed
				rp := writeReplay(eng, outDir, *prop, fo)
				fmt.Printf("VIOLATION property=%s replay=%s obligation=%s (witness of a repaired defect fails again)\n", *prop, rp, k.Obligation)
			}
			if k.Kind == "finding" && !failedOnCode {
				fmt.Printf("NOTE property=%s the witness of known finding %s no longer fails on this tree\n", *prop, k.Obligation)
			}
		}
	}
	auditRecords = nil
	if *tier == "thorough" {
		recs, failed := runAudits(outDir)
		auditRecords = recs
		if failed != "" {
			writeEvidence(vd, *prop, *tier, seed, cfg, results, obs, time.Since(t0).Seconds(), "assumption audit failed", knownHit)
			return undecided("an assumption audit failed (an assumed library contract or axiom does not describe the real library): " + oneLine(failed))
		}
	}
	writeEvidence(vd, *prop, *tier, seed, cfg, results, obs, time.Since(t0).Seconds(), "", knownHit)
	nd := 0
	for _, o := range obs {
		if o.Status == "discharged" {
			nd++
		}
	}
	fmt.Printf("property %s: %d obligations, %d discharged, %d known findings, %d violations (%.1fs)\n", *prop, len(obs), nd, len(knownHit), violations, time.Since(t0).Seconds())
	if violations > 0 {
		return 1
	}
	if os.Getenv("SSOVC_KEEP") == "" {
		os.RemoveAll(filepath.Join(outDir, "smt"))
	}
	return 0
}

func oneLine(s string) string {
	s = strings.ReplaceAll(s, "\n", " ")
	if len(s) > 400 {
		s = s[:400] + "..."
	}
	return s
}

// positionalKind: safety/frame obligations exist only if the code contains the construct they
// guard (an index expression, a heap write, ...); their absence is not a failure.
func positionalKind(name string) bool {
	for _, k := range []string{"/bounds", "/div-by-zero", "/nil-map-write", "/nil-deref", "/typeassert", "/unreachable-panic", "/frame", "/lockset", "/lock-released"} {
		if strings.HasSuffix(name, k) {
			return true
		}
	}
	return false
}

// goneFn: obligation name n belongs to a function that no longer exists.
func goneFn(gone []string, n string) bool {
	for _, g := range gone {
		if strings.HasPrefix(n, g+"/") {
			return true
		}
	}
	return false
}

func containsStr(xs []string, x string) bool {
	for _, y := range xs {
		if y == x {
			return true
		}
	}
	return false
}

// replayRegression: per known-findings entry of the property, what its witness did on the real code (thorough tier).
var replayRegression []map[string]interface{}

// auditRecords: the bounded assumption audits run in this (thorough) run.
var auditRecords []map[string]interface{}

// cmdFeas: a census of explored paths whose assumptions are unsatisfiable (the path is infeasible), per function of a
// property. Paths can be genuinely infeasible; a change of the census after an engine change points at assumptions
// the engine itself made contradictory (vacuous proofs). Development aid, not part of any check.
func cmdFeas(args []string) int {
	fs := flag.NewFlagSet("feas", flag.ExitOnError)
	prop := fs.String("property", "", "property id")
	fs.Parse(args)
	vd := verifDir()
	eng, err := loadEngine(repoDir(), filepath.Join(vd, "spec"), []string{"./internal/..."})
	if err != nil {
		fmt.Println("load:", err)
		return 2
	}
	var cfgs map[string]*PropCfg
	if b, err := os.ReadFile(filepath.Join(vd, "spec", "props.json")); err != nil || json.Unmarshal(b, &cfgs) != nil {
		fmt.Println("cannot read props.json")
		return 2
	}
	cfg := cfgs[*prop]
	if cfg == nil {
		fmt.Println("no such property")
		return 2
	}
	outDir := filepath.Join(outBase(), "out", "feas")
	os.RemoveAll(outDir)
	tot, inf := 0, 0
	for _, name := range cfg.Functions {
		fn := eng.fnByShort(name)
		if fn == nil {
			continue
		}
		r := eng.verifyFunction(fn, eng.contractFor(fn), 4096)
		last := map[string]*VC{}
		for _, vc := range r.VCs {
			if vc.Kind == "cover" {
				continue
			}
			if o, ok := last[vc.Trace]; !ok || len(vc.Asserts) > len(o.Asserts) {
				last[vc.Trace] = vc
			}
		}
		var probes []*VC
		for tr, vc := range last {
			probes = append(probes, &VC{Ob: name + "/feasible", Fn: name, Kind: "feas", Trace: tr, Asserts: vc.Asserts, Goal: TFalse})
		}
		solveAll(probes, solveCfg{outDir: filepath.Join(outDir, "smt"), quickSec: 2, fullSec: 2, jobs: 16})
		n := 0
		var which []string
		for _, p := range probes {
			if p.Verdict == "unsat" {
				n++
				which = append(which, p.Trace)
			}
		}
		sort.Strings(which)
		fmt.Printf("%-70s paths=%d infeasible=%d\n", name, len(probes), n)
		for _, w := range which {
			fmt.Printf("      %s\n", w)
		}
		tot += len(probes)
		inf += n
	}
	fmt.Printf("TOTAL %s paths=%d infeasible=%d\n", *prop, tot, inf)
	return 0
}
