package main

import (
	"fmt"
	"strconv"
	"strings"
	"unicode"
)

// ---------------------------------------------------------------------------
// Spec expression AST

type Expr struct {
	Op   string // "int","str","id","bin","un","sel","idx","slice","call","forall","exists","old","anchor","cond","tuplesel"
	Name string // identifier / operator / field name / anchor callee
	Int  int64
	Str  string
	Args []*Expr
	Vars []string
	Src  string
}

func (e *Expr) String() string {
	if e == nil {
		return "<nil>"
	}
	switch e.Op {
	case "int":
		return strconv.FormatInt(e.Int, 10)
	case "str":
		return strconv.Quote(e.Str)
	case "id":
		return e.Name
	case "bin":
		return "(" + e.Args[0].String() + " " + e.Name + " " + e.Args[1].String() + ")"
	case "un":
		return e.Name + e.Args[0].String()
	case "sel":
		return e.Args[0].String() + "." + e.Name
	case "idx":
		return e.Args[0].String() + "[" + e.Args[1].String() + "]"
	case "call":
		var as []string
		for _, a := range e.Args {
			as = append(as, a.String())
		}
		return e.Name + "(" + strings.Join(as, ", ") + ")"
	case "forall", "exists":
		return "(" + e.Op + " " + strings.Join(e.Vars, ",") + " :: " + e.Args[0].String() + ")"
	case "old":
		return "old(" + e.Args[0].String() + ")"
	case "anchor":
		return fmt.Sprintf("@%s#%d", e.Name, e.Int)
	case "cond":
		return "(" + e.Args[0].String() + " ? " + e.Args[1].String() + " : " + e.Args[2].String() + ")"
	}
	return e.Op
}

type tok struct {
	k string // "int","str","id","op","anchor","eof"
	s string
	n int64
}

type lexer struct {
	src  string
	toks []tok
	pos  int
}

func lex(src string) ([]tok, error) {
	var out []tok
	i := 0
	for i < len(src) {
		c := src[i]
		switch {
		case c == ' ' || c == '\t' || c == '\n':
			i++
		case unicode.IsDigit(rune(c)):
			j := i
			for j < len(src) && (unicode.IsDigit(rune(src[j]))) {
				j++
			}
			n, _ := strconv.ParseInt(src[i:j], 10, 64)
			out = append(out, tok{k: "int", n: n, s: src[i:j]})
			i = j
		case c == '"':
			j := i + 1
			for j < len(src) && src[j] != '"' {
				if src[j] == '\\' {
					j++
				}
				j++
			}
			if j >= len(src) {
				return nil, fmt.Errorf("unterminated string in %q", src)
			}
			s, err := strconv.Unquote(src[i : j+1])
			if err != nil {
				return nil, fmt.Errorf("bad string %s", src[i:j+1])
			}
			out = append(out, tok{k: "str", s: s})
			i = j + 1
		case c == '@':
			j := i + 1
			for j < len(src) && src[j] != '#' && src[j] != ' ' {
				j++
			}
			if j >= len(src) || src[j] != '#' {
				return nil, fmt.Errorf("anchor without #k in %q", src)
			}
			name := src[i+1 : j]
			k := j + 1
			for k < len(src) && unicode.IsDigit(rune(src[k])) {
				k++
			}
			n, _ := strconv.ParseInt(src[j+1:k], 10, 64)
			out = append(out, tok{k: "anchor", s: name, n: n})
			i = k
		case unicode.IsLetter(rune(c)) || c == '_' || c == '$':
			j := i
			for j < len(src) && (unicode.IsLetter(rune(src[j])) || unicode.IsDigit(rune(src[j])) || src[j] == '_' || src[j] == '$' ||
				(src[j] == '@' && src[i] == '$' && j+1 < len(src) && unicode.IsDigit(rune(src[j+1])))) {
				j++
			}
			out = append(out, tok{k: "id", s: src[i:j]})
			i = j
		default:
			ops := []string{"<==>", "==>", "::", "==", "!=", "<=", ">=", "&&", "||", "(", ")", "[", "]", ".", ",", "+", "-", "*", "/", "%", "<", ">", "!", "?", ":", "{", "}"}
			found := false
			for _, o := range ops {
				if strings.HasPrefix(src[i:], o) {
					out = append(out, tok{k: "op", s: o})
					i += len(o)
					found = true
					break
				}
			}
			if !found {
				return nil, fmt.Errorf("bad character %q in %q", c, src)
			}
		}
	}
	out = append(out, tok{k: "eof"})
	return out, nil
}

type parser struct {
	toks []tok
	pos  int
	src  string
}

func parseExpr(src string) (e *Expr, err error) {
	toks, err := lex(src)
	if err != nil {
		return nil, err
	}
	p := &parser{toks: toks, src: src}
	defer func() {
		if r := recover(); r != nil {
			if s, ok := r.(string); ok {
				err = fmt.Errorf("%s in %q", s, src)
				return
			}
			panic(r)
		}
	}()
	e = p.expr()
	if p.peek().k != "eof" {
		return nil, fmt.Errorf("trailing %q in %q", p.peek().s, src)
	}
	e.Src = src
	return e, nil
}

func (p *parser) peek() tok { return p.toks[p.pos] }
func (p *parser) next() tok { t := p.toks[p.pos]; p.pos++; return t }
func (p *parser) isOp(s string) bool {
	t := p.peek()
	return t.k == "op" && t.s == s
}
func (p *parser) accept(s string) bool {
	if p.isOp(s) {
		p.pos++
		return true
	}
	return false
}
func (p *parser) expect(s string) {
	if !p.accept(s) {
		panic(fmt.Sprintf("expected %q, got %q", s, p.peek().s))
	}
}

func (p *parser) expr() *Expr {
	l := p.tern()
	if p.isOp("==>") || p.isOp("<==>") {
		op := p.next().s
		r := p.expr()
		return &Expr{Op: "bin", Name: op, Args: []*Expr{l, r}}
	}
	return l
}

func (p *parser) tern() *Expr {
	c := p.or()
	if p.accept("?") {
		a := p.expr()
		p.expect(":")
		b := p.expr()
		return &Expr{Op: "cond", Args: []*Expr{c, a, b}}
	}
	return c
}

func (p *parser) or() *Expr {
	l := p.and()
	for p.isOp("||") {
		p.next()
		r := p.and()
		l = &Expr{Op: "bin", Name: "||", Args: []*Expr{l, r}}
	}
	return l
}

func (p *parser) and() *Expr {
	l := p.cmp()
	for p.isOp("&&") {
		p.next()
		r := p.cmp()
		l = &Expr{Op: "bin", Name: "&&", Args: []*Expr{l, r}}
	}
	return l
}

func (p *parser) cmp() *Expr {
	l := p.add()
	for {
		t := p.peek()
		if t.k == "op" && (t.s == "==" || t.s == "!=" || t.s == "<" || t.s == "<=" || t.s == ">" || t.s == ">=") {
			p.next()
			r := p.add()
			// chained comparisons a <= b < c  ==>  a <= b && b < c
			if l.Op == "bin" && isCmpOp(l.Name) && l.Name != "==" && l.Name != "!=" {
				l = &Expr{Op: "bin", Name: "&&", Args: []*Expr{l, {Op: "bin", Name: t.s, Args: []*Expr{l.Args[1], r}}}}
			} else if l.Op == "bin" && l.Name == "&&" && l.Args[1].Op == "bin" && isCmpOp(l.Args[1].Name) && l.Args[1].Name != "==" && l.Args[1].Name != "!=" && t.s != "==" && t.s != "!=" {
				l = &Expr{Op: "bin", Name: "&&", Args: []*Expr{l, {Op: "bin", Name: t.s, Args: []*Expr{l.Args[1].Args[1], r}}}}
			} else {
				l = &Expr{Op: "bin", Name: t.s, Args: []*Expr{l, r}}
			}
			continue
		}
		if t.k == "id" && t.s == "in" {
			p.next()
			r := p.add()
			l = &Expr{Op: "bin", Name: "in", Args: []*Expr{l, r}}
			continue
		}
		return l
	}
}

func isCmpOp(s string) bool {
	switch s {
	case "==", "!=", "<", "<=", ">", ">=":
		return true
	}
	return false
}

func (p *parser) add() *Expr {
	l := p.mul()
	for p.isOp("+") || p.isOp("-") {
		op := p.next().s
		r := p.mul()
		l = &Expr{Op: "bin", Name: op, Args: []*Expr{l, r}}
	}
	return l
}

func (p *parser) mul() *Expr {
	l := p.unary()
	for p.isOp("*") || p.isOp("/") || p.isOp("%") {
		op := p.next().s
		r := p.unary()
		l = &Expr{Op: "bin", Name: op, Args: []*Expr{l, r}}
	}
	return l
}

func (p *parser) unary() *Expr {
	if p.accept("!") {
		return &Expr{Op: "un", Name: "!", Args: []*Expr{p.unary()}}
	}
	if p.accept("-") {
		return &Expr{Op: "un", Name: "-", Args: []*Expr{p.unary()}}
	}
	return p.postfix()
}

func (p *parser) postfix() *Expr {
	e := p.primary()
	for {
		switch {
		case p.accept("."):
			t := p.next()
			if t.k == "int" {
				e = &Expr{Op: "tuplesel", Int: t.n, Args: []*Expr{e}}
			} else if t.k == "id" {
				e = &Expr{Op: "sel", Name: t.s, Args: []*Expr{e}}
			} else {
				panic("bad selector")
			}
		case p.accept("["):
			if p.accept(":") {
				var hi *Expr
				if !p.isOp("]") {
					hi = p.expr()
				}
				p.expect("]")
				e = &Expr{Op: "slice", Args: []*Expr{e, nil, hi}}
				continue
			}
			i := p.expr()
			if p.accept(":") {
				var hi *Expr
				if !p.isOp("]") {
					hi = p.expr()
				}
				p.expect("]")
				e = &Expr{Op: "slice", Args: []*Expr{e, i, hi}}
				continue
			}
			p.expect("]")
			e = &Expr{Op: "idx", Args: []*Expr{e, i}}
		case p.isOp("(") && e.Op == "id":
			p.next()
			var args []*Expr
			for !p.isOp(")") {
				args = append(args, p.expr())
				if !p.accept(",") {
					break
				}
			}
			p.expect(")")
			if e.Name == "old" && len(args) == 1 {
				e = &Expr{Op: "old", Args: args}
			} else {
				e = &Expr{Op: "call", Name: e.Name, Args: args}
			}
		default:
			return e
		}
	}
}

func (p *parser) primary() *Expr {
	t := p.next()
	switch t.k {
	case "int":
		return &Expr{Op: "int", Int: t.n}
	case "str":
		return &Expr{Op: "str", Str: t.s}
	case "anchor":
		return &Expr{Op: "anchor", Name: t.s, Int: t.n}
	case "id":
		if t.s == "forall" || t.s == "exists" {
			var vars []string
			for {
				v := p.next()
				if v.k != "id" {
					panic("quantifier variable expected")
				}
				name := v.s
				if nt := p.peek(); nt.k == "id" && nt.s != "in" {
					p.next()
					name += ":" + nt.s
				}
				vars = append(vars, name)
				if !p.accept(",") {
					break
				}
			}
			var pats []*Expr
			if p.accept("{") {
				for {
					pats = append(pats, p.expr())
					if !p.accept(",") {
						break
					}
				}
				p.expect("}")
			}
			p.expect("::")
			body := p.expr()
			return &Expr{Op: t.s, Vars: vars, Args: append([]*Expr{body}, pats...)}
		}
		return &Expr{Op: "id", Name: t.s}
	case "op":
		if t.s == "(" {
			e := p.expr()
			p.expect(")")
			return e
		}
	}
	panic(fmt.Sprintf("unexpected %q", t.s))
}

// ---------------------------------------------------------------------------
// Contracts

type Clause struct {
	Kind   string // requires, ensures, modifies, invariant, let, sink, fresh, assume-lib
	Props  []string
	Name   string
	E      *Expr
	Text   string
	Loop   int      // for invariants
	Mods   []*Expr  // for modifies
	LetVar string   // for let
	Sink   string   // for sink: callee name
}

type Contract struct {
	Key      string // resolved function key (ssa Function.String() form) — set by the binder
	Kind     string // "func", "interface"
	Sig      string // raw signature text
	Recv     string // receiver variable name
	RecvType string // receiver type text (without *)
	RecvPtr  bool
	FnName   string
	Params   []string
	PTypes   []string // parameter type texts (lemmas)
	Results  []string // named results, if any
	Pkg      string   // package path the contract file belongs to ("" for library specs)
	Clauses  []*Clause
	Pure     bool
	Trusted  bool
	NoInline bool
	Lib      bool
	File     string
	Line     int
	Dyn      [][2]string // function-valued parameters: name -> pure | effectfree | fresh
	PureFn   string // for library "pure = name" mapping to an SMT function or builtin
	EffectFree bool
	HavocAll bool
	Unchecked map[string]string // obligation kind -> reason (listed as an unchecked assumption)
}

type TypeSpec struct {
	TypeName string
	Pkg      string
	Inv      []*Clause
	Guarded  map[string]string // field -> mutex field
	Ghost    map[string]string // ghost field -> type text
	Dyn      map[string]string // func-typed field -> pure | effectfree | fresh
}

type SpecFn struct {
	Name   string
	Params []string
	PTypes []string
	Ret    string
	Body   *Expr // nil = uninterpreted
}

type SpecAxiom struct {
	Name string
	E    *Expr
	Pat  *Expr
	Text string
}

type SpecDB struct {
	Contracts []*Contract
	Types     map[string]*TypeSpec // key pkgpath.Type
	Fns       map[string]*SpecFn
	Axioms    []*SpecAxiom
	Lemmas    []*SpecAxiom
	Errors    []string
}

func newSpecDB() *SpecDB {
	return &SpecDB{Types: map[string]*TypeSpec{}, Fns: map[string]*SpecFn{}}
}

var clauseKW = map[string]bool{"requires": true, "ensures": true, "modifies": true, "invariant": true, "loop": true, "let": true,
	"sink": true, "pure": true, "trusted": true, "fresh": true, "typeinv": true, "guarded_by": true, "ghost": true, "noinline": true,
	"effectfree": true, "havocall": true, "dyn": true, "ghostat": true, "preserves": true, "unchecked": true}

// parseSpecText parses the //@ lines of one file. pkg is the package path
// the file belongs to ("" for library/prelude files).
func (db *SpecDB) parseSpecText(file, pkg string, lines []string, lib bool) {
	type pending struct {
		line int
		text string
	}
	var items []pending
	for i, raw := range lines {
		s := strings.TrimRight(raw, " \t\r")
		t := strings.TrimSpace(s)
		if strings.HasPrefix(t, "//@") {
			t = strings.TrimSpace(t[3:])
		} else if lib {
			if strings.HasPrefix(t, "//") || strings.HasPrefix(t, "#") {
				continue
			}
		} else {
			continue
		}
		if t == "" {
			continue
		}
		// strip trailing // comments outside strings
		if k := commentStart(t); k >= 0 {
			t = strings.TrimSpace(t[:k])
			if t == "" {
				continue
			}
		}
		first := t
		if j := strings.IndexAny(t, " \t("); j >= 0 {
			first = t[:j]
		}
		isNew := first == "func" || first == "interface" || first == "lemmafn" || first == "ghostfield" || first == "type" || first == "spec" || first == "axiom" || first == "lemma" || clauseKW[first]
		if !isNew && len(items) > 0 {
			items[len(items)-1].text += " " + t
			continue
		}
		items = append(items, pending{i + 1, t})
	}
	var cur *Contract
	var curType *TypeSpec
	curLoop := 0
	errf := func(line int, format string, a ...interface{}) {
		db.Errors = append(db.Errors, fmt.Sprintf("%s:%d: %s", file, line, fmt.Sprintf(format, a...)))
	}
	for _, it := range items {
		t := it.text
		kw := t
		rest := ""
		if j := strings.IndexAny(t, " \t"); j >= 0 {
			kw, rest = t[:j], strings.TrimSpace(t[j+1:])
		}
		switch kw {
		case "func", "interface", "lemmafn":
			c, err := parseSig(kw, rest)
			if err != nil {
				errf(it.line, "%v", err)
				cur = nil
				continue
			}
			c.Pkg, c.File, c.Line, c.Lib = pkg, file, it.line, lib
			db.Contracts = append(db.Contracts, c)
			cur, curType, curLoop = c, nil, 0
		case "type":
			name := strings.TrimSpace(rest)
			ts := &TypeSpec{TypeName: name, Pkg: pkg, Guarded: map[string]string{}, Ghost: map[string]string{}, Dyn: map[string]string{}}
			db.Types[pkg+"."+name] = ts
			curType, cur = ts, nil
		case "ghostfield":
			fs := strings.Fields(rest)
			if len(fs) != 2 {
				errf(it.line, "ghostfield $name type")
				continue
			}
			db.Fns["ghost:"+fs[0]] = &SpecFn{Name: "ghost:" + fs[0], Ret: fs[1]}
		case "spec":
			f, err := parseSpecFn(rest)
			if err != nil {
				errf(it.line, "%v", err)
				continue
			}
			db.Fns[f.Name] = f
		case "axiom", "lemma":
			var pat *Expr
			if k := strings.Index(rest, "{"); k >= 0 && k < strings.Index(rest, ":") {
				k2 := strings.Index(rest, "}")
				if k2 < k {
					errf(it.line, "unterminated {pattern}")
					continue
				}
				pe, err := parseExpr(strings.TrimSpace(rest[k+1 : k2]))
				if err != nil {
					errf(it.line, "%v", err)
					continue
				}
				pat = pe
				rest = rest[:k] + rest[k2+1:]
			}
			j := strings.Index(rest, ":")
			if j < 0 {
				errf(it.line, "axiom needs name:")
				continue
			}
			e, err := parseExpr(strings.TrimSpace(rest[j+1:]))
			if err != nil {
				errf(it.line, "%v", err)
				continue
			}
			a := &SpecAxiom{Name: strings.TrimSpace(rest[:j]), E: e, Pat: pat, Text: rest[j+1:]}
			if kw == "axiom" {
				db.Axioms = append(db.Axioms, a)
			} else {
				db.Lemmas = append(db.Lemmas, a)
			}
		case "typeinv":
			if curType == nil {
				errf(it.line, "typeinv outside type block")
				continue
			}
			cl, err := parseClause("typeinv", rest)
			if err != nil {
				errf(it.line, "%v", err)
				continue
			}
			curType.Inv = append(curType.Inv, cl)
		case "guarded_by":
			if curType == nil {
				errf(it.line, "guarded_by outside type block")
				continue
			}
			j := strings.LastIndex(rest, ":")
			if j < 0 {
				errf(it.line, "guarded_by fields : mutex")
				continue
			}
			mu := strings.TrimSpace(rest[j+1:])
			for _, f := range strings.Split(rest[:j], ",") {
				curType.Guarded[strings.TrimSpace(f)] = mu
			}
		case "ghost":
			// ghost field $name type
			fs := strings.Fields(rest)
			if len(fs) == 3 && fs[0] == "field" && curType != nil {
				curType.Ghost[fs[1]] = fs[2]
			} else {
				errf(it.line, "ghost field $name type (inside a type block)")
			}
		case "dyn":
			fs := strings.Fields(rest)
			if len(fs) == 2 && curType != nil {
				curType.Dyn[fs[0]] = fs[1]
			} else if len(fs) == 2 && cur != nil {
				cur.Dyn = append(cur.Dyn, [2]string{fs[0], fs[1]})
			} else {
				errf(it.line, "dyn <field|param> pure|effectfree|fresh")
			}
		case "unchecked":
			// unchecked <obligation kind>: <reason> — the safety obligations of that kind are not generated for this
			// function; the reason is listed among the unchecked assumptions of every run
			j := strings.Index(rest, ":")
			if cur == nil || j <= 0 || strings.TrimSpace(rest[j+1:]) == "" {
				errf(it.line, "unchecked <kind>: <reason> inside a func block")
				continue
			}
			if cur.Unchecked == nil {
				cur.Unchecked = map[string]string{}
			}
			cur.Unchecked[strings.TrimSpace(rest[:j])] = strings.TrimSpace(rest[j+1:])
		case "loop":
			fs := strings.Fields(rest)
			if len(fs) == 0 {
				errf(it.line, "loop needs an ordinal")
				continue
			}
			n, err := strconv.Atoi(fs[0])
			if err != nil {
				errf(it.line, "loop ordinal: %v", err)
			}
			curLoop = n
		case "pure", "trusted", "noinline", "effectfree", "havocall":
			if cur == nil {
				errf(it.line, "%s outside func block", kw)
				continue
			}
			switch kw {
			case "pure":
				cur.Pure = true
				if strings.HasPrefix(rest, "=") {
					cur.PureFn = strings.TrimSpace(rest[1:])
				}
			case "trusted":
				cur.Trusted = true
			case "noinline":
				cur.NoInline = true
			case "effectfree":
				cur.EffectFree = true
			case "havocall":
				cur.HavocAll = true
			}
		default:
			if cur == nil {
				errf(it.line, "clause %q outside func block", kw)
				continue
			}
			cl, err := parseClause(kw, rest)
			if err != nil {
				errf(it.line, "%v", err)
				continue
			}
			if kw == "invariant" {
				if curLoop == 0 {
					errf(it.line, "invariant before loop N")
					continue
				}
				cl.Loop = curLoop
			}
			cur.Clauses = append(cur.Clauses, cl)
		}
	}
}

func commentStart(t string) int {
	in := false
	for i := 0; i+1 < len(t); i++ {
		if t[i] == '"' {
			in = !in
		}
		if !in && t[i] == '/' && t[i+1] == '/' {
			return i
		}
	}
	return -1
}

func parseClause(kind, rest string) (*Clause, error) {
	cl := &Clause{Kind: kind, Text: rest}
	r := rest
	if strings.HasPrefix(r, "[") {
		j := strings.Index(r, "]")
		if j < 0 {
			return nil, fmt.Errorf("unterminated [props]")
		}
		cl.Props = strings.Fields(r[1:j])
		r = strings.TrimSpace(r[j+1:])
	}
	// optional name:
	if j := strings.Index(r, ":"); kind != "ghostat" && kind != "preserves" && j > 0 && isIdent(r[:j]) && !strings.HasPrefix(r[j:], "::") {
		cl.Name = r[:j]
		r = strings.TrimSpace(r[j+1:])
	}
	switch kind {
	case "modifies":
		if strings.TrimSpace(r) == "nothing" {
			return cl, nil
		}
		for _, part := range splitTop(r, ',') {
			part = strings.TrimSpace(part)
			star := false
			if strings.HasSuffix(part, ".*") {
				star = true
				part = part[:len(part)-2]
			}
			e, err := parseExpr(part)
			if err != nil {
				return nil, err
			}
			if star {
				e = &Expr{Op: "sel", Name: "*", Args: []*Expr{e}}
			}
			cl.Mods = append(cl.Mods, e)
		}
		return cl, nil
	case "let":
		j := strings.Index(r, "=")
		if j < 0 {
			return nil, fmt.Errorf("let x = e")
		}
		cl.LetVar = strings.TrimSpace(r[:j])
		e, err := parseExpr(strings.TrimSpace(r[j+1:]))
		if err != nil {
			return nil, err
		}
		cl.E = e
		return cl, nil
	case "sink":
		// sink <callee> requires <expr>
		j := strings.Index(r, " requires ")
		if j < 0 {
			return nil, fmt.Errorf("sink <callee> requires <expr>")
		}
		cl.Sink = strings.TrimSpace(r[:j])
		e, err := parseExpr(strings.TrimSpace(r[j+10:]))
		if err != nil {
			return nil, err
		}
		cl.E = e
		return cl, nil
	case "ghostat":
		// ghostat <site#k>: target = expr
		j := strings.Index(r, ":")
		k := strings.Index(r, "=")
		if j < 0 || k < j {
			return nil, fmt.Errorf("ghostat site#k: target = expr")
		}
		cl.Sink = strings.TrimSpace(r[:j])
		tgt, err := parseExpr(strings.TrimSpace(r[j+1 : k]))
		if err != nil {
			return nil, err
		}
		val, err := parseExpr(strings.TrimSpace(r[k+1:]))
		if err != nil {
			return nil, err
		}
		cl.Mods = []*Expr{tgt}
		cl.E = val
		return cl, nil
	case "preserves":
		// preserves <site>: expr
		j := strings.Index(r, ":")
		if j < 0 {
			return nil, fmt.Errorf("preserves site: expr")
		}
		cl.Sink = strings.TrimSpace(r[:j])
		e, err := parseExpr(strings.TrimSpace(r[j+1:]))
		if err != nil {
			return nil, err
		}
		cl.E = e
		return cl, nil
	case "fresh":
		e, err := parseExpr(r)
		if err != nil {
			return nil, err
		}
		cl.E = e
		return cl, nil
	}
	e, err := parseExpr(r)
	if err != nil {
		return nil, err
	}
	cl.E = e
	return cl, nil
}

func isIdent(s string) bool {
	if s == "" {
		return false
	}
	for i, r := range s {
		if !(unicode.IsLetter(r) || r == '_' || (i > 0 && unicode.IsDigit(r))) {
			return false
		}
	}
	return true
}

func splitTop(s string, sep byte) []string {
	var out []string
	depth := 0
	in := false
	last := 0
	for i := 0; i < len(s); i++ {
		c := s[i]
		if c == '"' {
			in = !in
		}
		if in {
			continue
		}
		switch c {
		case '(', '[', '{':
			depth++
		case ')', ']', '}':
			depth--
		}
		if c == sep && depth == 0 {
			out = append(out, s[last:i])
			last = i + 1
		}
	}
	out = append(out, s[last:])
	return out
}

// parseSig parses "func (r *T) Name(a T1, b T2) (x R1, err error)" loosely:
// it extracts receiver, name, parameter names and named results.
func parseSig(kind, s string) (*Contract, error) {
	c := &Contract{Kind: kind, Sig: s}
	s = strings.TrimSpace(s)
	if kind == "func" && strings.HasPrefix(s, "(") {
		j := matchParen(s, 0)
		if j < 0 {
			return nil, fmt.Errorf("bad receiver in %q", s)
		}
		fs := strings.Fields(s[1:j])
		if len(fs) == 2 {
			c.Recv = fs[0]
			c.RecvType = fs[1]
		} else if len(fs) == 1 {
			c.RecvType = fs[0]
		} else {
			return nil, fmt.Errorf("bad receiver in %q", s)
		}
		if strings.HasPrefix(c.RecvType, "*") {
			c.RecvPtr = true
			c.RecvType = c.RecvType[1:]
		}
		s = strings.TrimSpace(s[j+1:])
	}
	j := strings.Index(s, "(")
	if j < 0 {
		return nil, fmt.Errorf("no parameter list in %q", s)
	}
	c.FnName = strings.TrimSpace(s[:j])
	if kind == "interface" {
		// T.M
		k := strings.LastIndex(c.FnName, ".")
		if k < 0 {
			return nil, fmt.Errorf("interface contract needs Type.Method")
		}
		c.RecvType = c.FnName[:k]
		c.FnName = c.FnName[k+1:]
		c.Recv = "this"
	}
	e := matchParen(s, j)
	if e < 0 {
		return nil, fmt.Errorf("unbalanced parameter list in %q", s)
	}
	c.Params = paramNames(s[j+1 : e])
	for _, p := range splitTop(s[j+1:e], ',') {
		fs := strings.Fields(strings.TrimSpace(p))
		if len(fs) >= 2 {
			c.PTypes = append(c.PTypes, fs[1])
		} else {
			c.PTypes = append(c.PTypes, "")
		}
	}
	rest := strings.TrimSpace(s[e+1:])
	if strings.HasPrefix(rest, "(") {
		k := matchParen(rest, 0)
		if k > 0 {
			parts := splitTop(rest[1:k], ',')
			named := true
			var names []string
			for _, p := range parts {
				fs := strings.Fields(strings.TrimSpace(p))
				if len(fs) < 2 {
					named = false
					break
				}
				names = append(names, fs[0])
			}
			if named {
				c.Results = names
			}
		}
	}
	return c, nil
}

func paramNames(s string) []string {
	s = strings.TrimSpace(s)
	if s == "" {
		return nil
	}
	var out []string
	for _, p := range splitTop(s, ',') {
		fs := strings.Fields(strings.TrimSpace(p))
		if len(fs) == 0 {
			out = append(out, "_")
			continue
		}
		out = append(out, fs[0])
	}
	return out
}

func matchParen(s string, i int) int {
	depth := 0
	for k := i; k < len(s); k++ {
		switch s[k] {
		case '(':
			depth++
		case ')':
			depth--
			if depth == 0 {
				return k
			}
		}
	}
	return -1
}

// parseSpecFn: name(a T, b U) R [= expr]
func parseSpecFn(s string) (*SpecFn, error) {
	j := strings.Index(s, "(")
	if j < 0 {
		return nil, fmt.Errorf("spec fn needs parameters: %q", s)
	}
	f := &SpecFn{Name: strings.TrimSpace(s[:j])}
	e := matchParen(s, j)
	if e < 0 {
		return nil, fmt.Errorf("unbalanced: %q", s)
	}
	ps := strings.TrimSpace(s[j+1 : e])
	if ps != "" {
		for _, p := range splitTop(ps, ',') {
			fs := strings.Fields(strings.TrimSpace(p))
			if len(fs) != 2 {
				return nil, fmt.Errorf("spec fn parameter %q", p)
			}
			f.Params = append(f.Params, fs[0])
			f.PTypes = append(f.PTypes, fs[1])
		}
	}
	rest := strings.TrimSpace(s[e+1:])
	if k := strings.Index(rest, "="); k >= 0 && !strings.HasPrefix(rest[k:], "==") {
		f.Ret = strings.TrimSpace(rest[:k])
		body, err := parseExpr(strings.TrimSpace(rest[k+1:]))
		if err != nil {
			return nil, err
		}
		f.Body = body
	} else {
		f.Ret = rest
	}
	if f.Ret == "" {
		return nil, fmt.Errorf("spec fn %s needs a result type", f.Name)
	}
	return f, nil
}
