package main

import (
	"bytes"
	"context"
	"encoding/json"
	"fmt"
	"os"
	"os/exec"
	"path/filepath"
	"strings"
	"time"
)

type replayEntry struct {
	Pkg  string `json:"pkg"`
	File string `json:"file"`
	Run  string `json:"run"`
}

// tryReplay runs the replay adapter registered for a failed obligation against the real code:
// an in-package Go test injected with `go test -overlay` (the repository is never written).
// The adapter derives its input from the obligation (and, where one exists, from the model).
// It confirms the violation iff the test FAILS on the tree under check.
func tryReplay(eng *Engine, outDir, prop string, o *Obligation) (bool, string) {
	vd := verifDir()
	b, err := os.ReadFile(filepath.Join(vd, "replay", "index.json"))
	if err != nil {
		return false, "no replay index"
	}
	var idx map[string]replayEntry
	if json.Unmarshal(b, &idx) != nil {
		return false, "bad replay index"
	}
	ent, ok := idx[o.Name]
	if !ok {
		return false, "no replay adapter for this obligation"
	}
	src := filepath.Join(vd, "replay", ent.File)
	repo := repoDir()
	dst := filepath.Join(repo, strings.TrimPrefix(ent.Pkg, "./"), "zz_verif_replay_"+filepath.Base(ent.File))
	ov := map[string]map[string]string{"Replace": {dst: src}}
	ob, _ := json.Marshal(ov)
	os.MkdirAll(filepath.Join(outDir, "replay"), 0o755)
	ovFile := filepath.Join(outDir, "replay", "overlay_"+mangle(o.Name)+".json")
	os.WriteFile(ovFile, ob, 0o644)
	ctx, cancel := context.WithTimeout(context.Background(), 180*time.Second)
	defer cancel()
	cmd := exec.CommandContext(ctx, "go", "test", "-overlay", ovFile, "-vet=off", "-count=1", "-timeout", "60s", "-run", "^"+ent.Run+"$", "-v", ent.Pkg)
	cmd.Dir = repo
	cmd.Env = append(os.Environ(), "GOFLAGS=-mod=mod", "GOPROXY=off", "GOSUMDB=off", "GOTOOLCHAIN=local")
	// the solver's counterexamples, projected onto the function's scalar and string parameters: the adapter
	// tries them first (VERIF_MODEL_INPUTS = JSON list of {parameter: value}), then its own witnesses
	if mi := modelInputs(o); mi != "" {
		cmd.Env = append(cmd.Env, "VERIF_MODEL_INPUTS="+mi)
	}
	var buf bytes.Buffer
	cmd.Stdout, cmd.Stderr = &buf, &buf
	err = cmd.Run()
	out := buf.String()
	detail := fmt.Sprintf("go test -overlay (adapter %s, %s):\n%s", ent.File, ent.Run, firstLines(out, 60))
	if mi := modelInputs(o); mi != "" {
		detail = "model inputs handed to the adapter: " + mi + "\n" + detail
	}
	if err != nil && strings.Contains(out, "--- FAIL: "+ent.Run) {
		return true, detail
	}
	return false, detail
}

// runAudits (thorough tier): the bounded audits of assumed library contracts and axioms (/verif/audit), injected
// into internal/proxy with `go test -overlay`. Returns one record per audit and the failure output, if any.
func runAudits(outDir string) ([]map[string]interface{}, string) {
	vd := verifDir()
	src := filepath.Join(vd, "audit", "assumptions_test.go")
	if _, err := os.Stat(src); err != nil {
		return nil, ""
	}
	repo := repoDir()
	dst := filepath.Join(repo, "internal", "proxy", "zz_verif_audit_test.go")
	ob, _ := json.Marshal(map[string]map[string]string{"Replace": {dst: src}})
	os.MkdirAll(filepath.Join(outDir, "replay"), 0o755)
	ovFile := filepath.Join(outDir, "replay", "overlay_audit.json")
	os.WriteFile(ovFile, ob, 0o644)
	ctx, cancel := context.WithTimeout(context.Background(), 300*time.Second)
	defer cancel()
	cmd := exec.CommandContext(ctx, "go", "test", "-overlay", ovFile, "-vet=off", "-count=1", "-timeout", "240s", "-run", "^TestVerifAudit", "-v", "./internal/proxy")
	cmd.Dir = repo
	cmd.Env = append(os.Environ(), "GOFLAGS=-mod=mod", "GOPROXY=off", "GOSUMDB=off", "GOTOOLCHAIN=local")
	var buf bytes.Buffer
	cmd.Stdout, cmd.Stderr = &buf, &buf
	err := cmd.Run()
	out := buf.String()
	var recs []map[string]interface{}
	for _, l := range strings.Split(out, "\n") {
		if i := strings.Index(l, "AUDIT "); i >= 0 {
			rest := l[i+6:]
			if j := strings.LastIndex(rest, " cases="); j > 0 {
				n := 0
				fmt.Sscanf(rest[j+7:], "%d", &n)
				recs = append(recs, map[string]interface{}{"assumption": rest[:j], "cases": n, "kind": "bounded audit against the real library (random inputs, fixed seed); not a proof"})
			}
		}
	}
	if err != nil {
		return recs, firstLines(out, 40)
	}
	return recs, ""
}

// modelInputs projects the models of an obligation's failed VCs onto the root function's parameters of
// string, integer and boolean type (symbols k<n>_in_<param>): a JSON list with one object per model.
func modelInputs(o *Obligation) string {
	var all []map[string]interface{}
	for _, vc := range o.Failed {
		if vc.Verdict != "sat" {
			continue
		}
		m := map[string]interface{}{}
		lines := strings.Split(vc.Raw, "\n")
		for i := 0; i+1 < len(lines); i++ {
			l := strings.TrimSpace(lines[i])
			if !strings.HasPrefix(l, "(define-fun k") || !strings.Contains(l, "_in_") || !strings.Contains(l, " () ") {
				continue
			}
			f := strings.Fields(l)
			if len(f) < 4 {
				continue
			}
			name := f[1][strings.Index(f[1], "_in_")+4:]
			val := strings.TrimSuffix(strings.TrimSpace(lines[i+1]), ")")
			switch f[3] {
			case "String":
				if s, ok := smtStringLit(val); ok {
					m[name] = s
				}
			case "Int":
				val = strings.NewReplacer("(", "", ")", "", " ", "").Replace(val)
				var n int64
				if _, err := fmt.Sscan(val, &n); err == nil {
					m[name] = n
				}
			case "Bool":
				m[name] = val == "true"
			}
		}
		if len(m) > 0 {
			all = append(all, m)
		}
		if len(all) >= 8 {
			break
		}
	}
	if len(all) == 0 {
		return ""
	}
	b, _ := json.Marshal(all)
	return string(b)
}

// smtStringLit decodes an SMT-LIB string literal ("" is a quote, \u{h..} a code point).
func smtStringLit(v string) (string, bool) {
	v = strings.TrimSpace(v)
	if len(v) < 2 || v[0] != '"' || v[len(v)-1] != '"' {
		return "", false
	}
	v = strings.ReplaceAll(v[1:len(v)-1], `""`, `"`)
	var sb strings.Builder
	for i := 0; i < len(v); i++ {
		if strings.HasPrefix(v[i:], "\\u{") {
			if j := strings.Index(v[i:], "}"); j > 0 {
				var cp int
				if _, err := fmt.Sscanf(v[i+3:i+j], "%x", &cp); err == nil {
					if cp < 256 {
						sb.WriteByte(byte(cp))
					} else {
						sb.WriteRune(rune(cp))
					}
					i += j
					continue
				}
			}
		}
		sb.WriteByte(v[i])
	}
	return sb.String(), true
}
