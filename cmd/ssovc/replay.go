package main

// tryReplay attempts to confirm a failed obligation against the real code.
func tryReplay(eng *Engine, outDir, prop string, o *Obligation) (bool, string) {
	return false, "no replay adapter for this obligation"
}
