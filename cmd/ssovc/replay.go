package main

import (
	"bytes"
	"context"
	"encoding/json"
	"fmt"
	"os"
	"os/exec"
	"path/filepath"
	"strings"
	"time"
)

type replayEntry struct {
	Pkg  string `json:"pkg"`
	File string `json:"file"`
	Run  string `json:"run"`
}

// tryReplay runs the replay adapter registered for a failed obligation against the real code:
// an in-package Go test injected with `go test -overlay` (the repository is never written).
// The adapter derives its input from the obligation (and, where one exists, from the model).
// It confirms the violation iff the test FAILS on the tree under check.
func tryReplay(eng *Engine, outDir, prop string, o *Obligation) (bool, string) {
	vd := verifDir()
	b, err := os.ReadFile(filepath.Join(vd, "replay", "index.json"))
	if err != nil {
		return false, "no replay index"
	}
	var idx map[string]replayEntry
	if json.Unmarshal(b, &idx) != nil {
		return false, "bad replay index"
	}
	ent, ok := idx[o.Name]
	if !ok {
		return false, "no replay adapter for this obligation"
	}
	src := filepath.Join(vd, "replay", ent.File)
	repo := repoDir()
	dst := filepath.Join(repo, strings.TrimPrefix(ent.Pkg, "./"), "zz_verif_replay_"+filepath.Base(ent.File))
	ov := map[string]map[string]string{"Replace": {dst: src}}
	ob, _ := json.Marshal(ov)
	os.MkdirAll(filepath.Join(outDir, "replay"), 0o755)
	ovFile := filepath.Join(outDir, "replay", "overlay_"+mangle(o.Name)+".json")
	os.WriteFile(ovFile, ob, 0o644)
	ctx, cancel := context.WithTimeout(context.Background(), 180*time.Second)
	defer cancel()
	cmd := exec.CommandContext(ctx, "go", "test", "-overlay", ovFile, "-vet=off", "-count=1", "-timeout", "60s", "-run", "^"+ent.Run+"$", "-v", ent.Pkg)
	cmd.Dir = repo
	cmd.Env = append(os.Environ(), "GOFLAGS=-mod=mod", "GOPROXY=off", "GOSUMDB=off", "GOTOOLCHAIN=local")
	var buf bytes.Buffer
	cmd.Stdout, cmd.Stderr = &buf, &buf
	err = cmd.Run()
	out := buf.String()
	detail := fmt.Sprintf("go test -overlay (adapter %s, %s):\n%s", ent.File, ent.Run, firstLines(out, 60))
	if err != nil && strings.Contains(out, "--- FAIL: "+ent.Run) {
		return true, detail
	}
	return false, detail
}
