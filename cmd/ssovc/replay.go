package main

import (
	"bytes"
	"context"
	"encoding/json"
	"fmt"
	"os"
	"os/exec"
	"path/filepath"
	"strings"
	"time"
)

type replayEntry struct {
	Pkg  string `json:"pkg"`
	File string `json:"file"`
	Run  string `json:"run"`
}

// tryReplay runs the replay adapter registered for a failed obligation against the real code:
// an in-package Go test injected with `go test -overlay` (the repository is never written).
// The adapter derives its input from the obligation (and, where one exists, from the model).
// It confirms the violation iff the test FAILS on the tree under check.
func tryReplay(eng *Engine, outDir, prop string, o *Obligation) (bool, string) {
	vd := verifDir()
	b, err := os.ReadFile(filepath.Join(vd, "replay", "index.json"))
	if err != nil {
		return false, "no replay index"
	}
	var idx map[string]replayEntry
	if json.Unmarshal(b, &idx) != nil {
		return false, "bad replay index"
	}
	ent, ok := idx[o.Name]
	if !ok {
		return false, "no replay adapter for this obligation"
	}
	src := filepath.Join(vd, "replay", ent.File)
	repo := repoDir()
	dst := filepath.Join(repo, strings.TrimPrefix(ent.Pkg, "./"), "zz_verif_replay_"+filepath.Base(ent.File))
	ov := map[string]map[string]string{"Replace": {dst: src}}
	ob, _ := json.Marshal(ov)
	os.MkdirAll(filepath.Join(outDir, "replay"), 0o755)
	ovFile := filepath.Join(outDir, "replay", "overlay_"+mangle(o.Name)+".json")
	os.WriteFile(ovFile, ob, 0o644)
	ctx, cancel := context.WithTimeout(context.Background(), 180*time.Second)
	defer cancel()
	cmd := exec.CommandContext(ctx, "go", "test", "-overlay", ovFile, "-vet=off", "-count=1", "-timeout", "60s", "-run", "^"+ent.Run+"$", "-v", ent.Pkg)
	cmd.Dir = repo
	cmd.Env = append(os.Environ(), "GOFLAGS=-mod=mod", "GOPROXY=off", "GOSUMDB=off", "GOTOOLCHAIN=local")
	var buf bytes.Buffer
	cmd.Stdout, cmd.Stderr = &buf, &buf
	err = cmd.Run()
	out := buf.String()
	detail := fmt.Sprintf("go test -overlay (adapter %s, %s):\n%s", ent.File, ent.Run, firstLines(out, 60))
	if err != nil && strings.Contains(out, "--- FAIL: "+ent.Run) {
		return true, detail
	}
	return false, detail
}

// runAudits (thorough tier): the bounded audits of assumed library contracts and axioms (/verif/audit), injected
// into internal/proxy with `go test -overlay`. Returns one record per audit and the failure output, if any.
func runAudits(outDir string) ([]map[string]interface{}, string) {
	vd := verifDir()
	src := filepath.Join(vd, "audit", "assumptions_test.go")
	if _, err := os.Stat(src); err != nil {
		return nil, ""
	}
	repo := repoDir()
	dst := filepath.Join(repo, "internal", "proxy", "zz_verif_audit_test.go")
	ob, _ := json.Marshal(map[string]map[string]string{"Replace": {dst: src}})
	os.MkdirAll(filepath.Join(outDir, "replay"), 0o755)
	ovFile := filepath.Join(outDir, "replay", "overlay_audit.json")
	os.WriteFile(ovFile, ob, 0o644)
	ctx, cancel := context.WithTimeout(context.Background(), 300*time.Second)
	defer cancel()
	cmd := exec.CommandContext(ctx, "go", "test", "-overlay", ovFile, "-vet=off", "-count=1", "-timeout", "240s", "-run", "^TestVerifAudit", "-v", "./internal/proxy")
	cmd.Dir = repo
	cmd.Env = append(os.Environ(), "GOFLAGS=-mod=mod", "GOPROXY=off", "GOSUMDB=off", "GOTOOLCHAIN=local")
	var buf bytes.Buffer
	cmd.Stdout, cmd.Stderr = &buf, &buf
	err := cmd.Run()
	out := buf.String()
	var recs []map[string]interface{}
	for _, l := range strings.Split(out, "\n") {
		if i := strings.Index(l, "AUDIT "); i >= 0 {
			rest := l[i+6:]
			if j := strings.LastIndex(rest, " cases="); j > 0 {
				n := 0
				fmt.Sscanf(rest[j+7:], "%d", &n)
				recs = append(recs, map[string]interface{}{"assumption": rest[:j], "cases": n, "kind": "bounded audit against the real library (random inputs, fixed seed); not a proof"})
			}
		}
	}
	if err != nil {
		return recs, firstLines(out, 40)
	}
	return recs, ""
}
