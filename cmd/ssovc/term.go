package main

import (
	"fmt"
	"strconv"
	"strings"
)

// Sort of an SMT term.
type Sort int

const (
	SInt Sort = iota
	SBool
	SStr
)

func (s Sort) String() string {
	switch s {
	case SInt:
		return "Int"
	case SBool:
		return "Bool"
	case SStr:
		return "String"
	}
	return "?"
}

// Term is an SMT-LIB term with its sort.
type Term struct {
	S    string
	Sort Sort
}

func (t Term) String() string { return t.S }

var (
	TTrue  = Term{"true", SBool}
	TFalse = Term{"false", SBool}
)

func IntLit(n int64) Term {
	if n < 0 {
		return Term{fmt.Sprintf("(- %d)", -n), SInt}
	}
	return Term{strconv.FormatInt(n, 10), SInt}
}

func isIntLit(t Term) (int64, bool) {
	s := t.S
	if strings.HasPrefix(s, "(- ") && strings.HasSuffix(s, ")") {
		n, err := strconv.ParseInt(s[3:len(s)-1], 10, 64)
		return -n, err == nil
	}
	n, err := strconv.ParseInt(s, 10, 64)
	return n, err == nil
}

// StrLit renders a Go string as an SMT-LIB 2.6 string literal.
func StrLit(s string) Term {
	var b strings.Builder
	b.WriteByte('"')
	for _, r := range []byte(s) {
		switch {
		case r == '"':
			b.WriteString(`""`)
		case r == '\\':
			b.WriteString(`\u{5c}`)
		case r >= 0x20 && r < 0x7f:
			b.WriteByte(r)
		default:
			fmt.Fprintf(&b, `\u{%x}`, r)
		}
	}
	b.WriteByte('"')
	return Term{b.String(), SStr}
}

func isStrLit(t Term) bool {
	return t.Sort == SStr && strings.HasPrefix(t.S, `"`)
}

func BoolLit(b bool) Term {
	if b {
		return TTrue
	}
	return TFalse
}

func App(sort Sort, fn string, args ...Term) Term {
	if len(args) == 0 {
		return Term{fn, sort}
	}
	var b strings.Builder
	b.WriteByte('(')
	b.WriteString(fn)
	for _, a := range args {
		b.WriteByte(' ')
		b.WriteString(a.S)
	}
	b.WriteByte(')')
	return Term{b.String(), sort}
}

func Not(a Term) Term {
	if a.S == "true" {
		return TFalse
	}
	if a.S == "false" {
		return TTrue
	}
	if strings.HasPrefix(a.S, "(not ") {
		return Term{a.S[5 : len(a.S)-1], SBool}
	}
	return App(SBool, "not", a)
}

func And(ts ...Term) Term {
	var keep []Term
	for _, t := range ts {
		if t.S == "true" {
			continue
		}
		if t.S == "false" {
			return TFalse
		}
		keep = append(keep, t)
	}
	if len(keep) == 0 {
		return TTrue
	}
	if len(keep) == 1 {
		return keep[0]
	}
	return App(SBool, "and", keep...)
}

func Or(ts ...Term) Term {
	var keep []Term
	for _, t := range ts {
		if t.S == "false" {
			continue
		}
		if t.S == "true" {
			return TTrue
		}
		keep = append(keep, t)
	}
	if len(keep) == 0 {
		return TFalse
	}
	if len(keep) == 1 {
		return keep[0]
	}
	return App(SBool, "or", keep...)
}

func Implies(a, b Term) Term {
	if a.S == "true" {
		return b
	}
	if a.S == "false" || b.S == "true" {
		return TTrue
	}
	return App(SBool, "=>", a, b)
}

func Eq(a, b Term) Term {
	if a.S == b.S {
		return TTrue
	}
	if x, ok := isIntLit(a); ok && a.Sort == SInt {
		if y, ok := isIntLit(b); ok {
			return BoolLit(x == y)
		}
	}
	if isStrLit(a) && isStrLit(b) {
		return BoolLit(a.S == b.S)
	}
	return App(SBool, "=", a, b)
}

func Ite(c, a, b Term) Term {
	if c.S == "true" {
		return a
	}
	if c.S == "false" {
		return b
	}
	return App(a.Sort, "ite", c, a, b)
}

func Add(a, b Term) Term {
	if x, ok := isIntLit(a); ok {
		if y, ok := isIntLit(b); ok {
			return IntLit(x + y)
		}
		if x == 0 {
			return b
		}
	}
	if y, ok := isIntLit(b); ok && y == 0 {
		return a
	}
	return App(SInt, "+", a, b)
}

func Sub(a, b Term) Term {
	if x, ok := isIntLit(a); ok {
		if y, ok := isIntLit(b); ok {
			return IntLit(x - y)
		}
	}
	if y, ok := isIntLit(b); ok && y == 0 {
		return a
	}
	return App(SInt, "-", a, b)
}

func Cmp(op string, a, b Term) Term {
	if x, ok := isIntLit(a); ok {
		if y, ok := isIntLit(b); ok {
			switch op {
			case "<":
				return BoolLit(x < y)
			case "<=":
				return BoolLit(x <= y)
			case ">":
				return BoolLit(x > y)
			case ">=":
				return BoolLit(x >= y)
			}
		}
	}
	return App(SBool, op, a, b)
}

// mangle makes an arbitrary Go/spec identifier safe as an SMT-LIB simple symbol.
func mangle(s string) string {
	s = strings.ReplaceAll(s, "github.com/buzzfeed/sso/internal/", "")
	var b strings.Builder
	b.WriteString("u_")
	for _, r := range s {
		switch {
		case r >= 'a' && r <= 'z', r >= 'A' && r <= 'Z', r >= '0' && r <= '9', r == '_':
			b.WriteRune(r)
		case r == '.':
			b.WriteString("_d_")
		case r == '/':
			b.WriteString("_s_")
		case r == '*':
			b.WriteString("_p_")
		case r == '$':
			b.WriteString("_g_")
		case r == '[':
			b.WriteString("_L_")
		case r == ']':
			b.WriteString("_R_")
		case r == '-':
			b.WriteString("_m_")
		case r == '|':
			b.WriteString("_I_")
		case r == '#':
			b.WriteString("_h_")
		case r == '>':
			b.WriteString("_to_")
		default:
			fmt.Fprintf(&b, "_x%x_", r)
		}
	}
	return b.String()
}
