package main

import (
	"fmt"
	"sync"
	"regexp"
	"strconv"
	"go/constant"
	"go/token"
	"go/types"
	"sort"
	"strings"

	"golang.org/x/tools/go/ssa"
)

// ---------------------------------------------------------------------------
// Frames

type deferred struct {
	call *ssa.CallCommon
	args []Val
	fnv  Val
}

type Frame struct {
	fn      *ssa.Function
	vals    map[ssa.Value]Val
	block   *ssa.BasicBlock
	prev    *ssa.BasicBlock
	pc      int
	defers  []deferred
	visited map[*ssa.BasicBlock]bool // loop headers already cut on this path
	ret     ssa.Value                // call instruction in the caller to bind (nil: none)
	isDefer bool
	depth   int
	// the call that created this (inlined) frame
	callC      *ssa.CallCommon
	callArgs   []Val
	callBefore *HeapSnap
	// dry-run control: stop when leaving this block set / reaching this header
	dryHeader *ssa.BasicBlock
	dryBody   map[*ssa.BasicBlock]bool
}

func (f *Frame) clone() *Frame {
	n := *f
	n.vals = make(map[ssa.Value]Val, len(f.vals))
	for k, v := range f.vals {
		n.vals[k] = v
	}
	n.defers = append([]deferred(nil), f.defers...)
	n.visited = make(map[*ssa.BasicBlock]bool, len(f.visited))
	for k, v := range f.visited {
		n.visited[k] = v
	}
	return &n
}

// ---------------------------------------------------------------------------
// VCs

type VC struct {
	Ob      string // obligation name
	Fn      string
	Kind    string
	Clause  string
	Props   []string
	Trace   string
	Asserts []string
	Goal    Term
	Inputs  []string // symbols worth printing from a model
	// results
	Verdict string
	Solver  string
	Time    float64
	Model   string
	Raw     string
	File    string
	Confirmed []string
}

// ---------------------------------------------------------------------------
// Executor

type Exec struct {
	eng    *Engine
	root   *ssa.Function
	con    *Contract
	env0   *Env // entry environment of the root function
	vcs    []*VC
	paths  int
	limit  int
	inl    map[string]bool // functions inlined
	libs   map[string]bool // library contracts / trusted assumptions used
	unk    map[string]bool // calls without any contract (havoc-all)
	dry    *dryRun
	obSeen map[string]bool
	lemma  string
}

type dryRun struct {
	at       map[string][]Term
	unstable map[string]bool
	allocd   map[string]bool
	written  map[string]*HeapVer
	all     bool
	clock   bool
	alloc   bool
}

func (st *State) top() *Frame { return st.stack[len(st.stack)-1] }

func (x *Exec) fnName() string {
	if x.lemma != "" {
		return x.lemma
	}
	return shortFn(x.root)
}

func shortFn(f *ssa.Function) string {
	s := f.String()
	s = strings.ReplaceAll(s, "github.com/buzzfeed/sso/internal/", "")
	return s
}

func (x *Exec) emit(st *State, kind, detail, clause string, props []string, goal Term) {
	if x.dry != nil {
		return
	}
	if x.con != nil && x.con.Unchecked != nil {
		if why, ok := x.con.Unchecked[kind]; ok {
			x.noteLib("UNCHECKED in " + x.fnName() + " (" + kind + " obligations not generated): " + why)
			return
		}
	}
	if goal.S == "true" {
		// still record so the obligation exists (trivially discharged by construction)
	}
	name := fmt.Sprintf("%s/%s", x.fnName(), kind)
	switch kind {
	case "bounds", "div-by-zero", "nil-map-write", "nil-deref", "typeassert", "unreachable-panic", "frame", "lockset", "lock-released":
		// positional details (block numbers, heap families) are not part of the obligation name:
		// names must survive harmless edits. The detail stays in the clause text.
		if detail != "" {
			clause = "[" + detail + "] " + clause
		}
	default:
		if detail != "" {
			name += "[" + detail + "]"
		}
	}
	vc := &VC{Ob: name, Fn: x.fnName(), Kind: kind, Clause: clause, Props: props,
		Trace: strings.Join(st.trace, " "), Asserts: st.asserts[:len(st.asserts):len(st.asserts)], Goal: goal}
	x.vcs = append(x.vcs, vc)
}

// run explores all paths of the root function.
func (x *Exec) run(st *State) {
	work := []*State{st}
	for len(work) > 0 {
		s := work[len(work)-1]
		work = work[:len(work)-1]
		for !s.dead {
			forks := x.stepGuarded(s)
			if len(forks) > 0 {
				work = append(work, forks...)
			}
		}
		x.paths++
		if x.paths > x.limit {
			bail("path limit %d exceeded in %s", x.limit, x.fnName())
		}
	}
}

// restartWithoutInlining: a contract-less helper turned out to be outside the modelled subset while it was being
// executed in line; the function is verified again with that helper's calls abstracted (sound: an unknown call
// over-approximates the helper), so the outcome is failed or discharged obligations instead of "undecided".
type restartWithoutInlining struct{}

func (x *Exec) stepGuarded(s *State) (forks []*State) {
	defer func() {
		if r := recover(); r != nil {
			if u, ok := r.(unsupported); ok && x.dry == nil && len(s.stack) > 1 && s.stack[1].fn != x.root {
				if x.eng.inlineFailed == nil {
					x.eng.inlineFailed = map[*ssa.Function]string{}
				}
				if _, seen := x.eng.inlineFailed[s.stack[1].fn]; !seen {
					x.eng.inlineFailed[s.stack[1].fn] = u.Error()
					panic(restartWithoutInlining{})
				}
			}
			panic(r)
		}
	}()
	return x.step(s)
}

func (x *Exec) val(st *State, f *Frame, v ssa.Value) Val {
	switch c := v.(type) {
	case *ssa.Const:
		return constVal(c)
	case *ssa.Global:
		return PtrV{GlobAddr{c}}
	case *ssa.Function:
		return x.eng.fnVal(c)
	case *ssa.Builtin:
		bail("builtin %s used as value", c.Name())
	}
	if r, ok := f.vals[v]; ok {
		return r
	}
	bail("no value for %s (%T) in %s", v.Name(), v, f.fn)
	return nil
}

func constVal(c *ssa.Const) Val {
	t := c.Type()
	if c.Value == nil {
		return zeroVal(t)
	}
	switch u := t.Underlying().(type) {
	case *types.Basic:
		switch {
		case u.Info()&types.IsBoolean != 0:
			return Sc{BoolLit(constant.BoolVal(c.Value))}
		case u.Info()&types.IsString != 0:
			return Sc{StrLit(constant.StringVal(c.Value))}
		case u.Info()&types.IsInteger != 0:
			if n, ok := constant.Int64Val(constant.ToInt(c.Value)); ok {
				return Sc{IntLit(n)}
			}
			// large unsigned
			return Sc{Term{constant.ToInt(c.Value).ExactString(), SInt}}
		case u.Info()&types.IsFloat != 0:
			// floats are uninterpreted; distinct constants get distinct symbols
			n := "fl" + mangle(c.Value.ExactString())[1:]
			reg.declare(n, fmt.Sprintf("(declare-const %s Int)", n))
			return Sc{Term{n, SInt}}
		}
	}
	bail("constant %s of type %s", c, t)
	return nil
}

// step executes one instruction of the top frame; may fork.
func (x *Exec) step(st *State) []*State {
	f := st.top()
	if f.pc >= len(f.block.Instrs) {
		bail("fell off block %d of %s", f.block.Index, f.fn)
	}
	in := f.block.Instrs[f.pc]
	switch i := in.(type) {
	case *ssa.DebugRef:
		f.pc++
	case *ssa.Alloc:
		el := i.Type().Underlying().(*types.Pointer).Elem()
		r := st.newRef("new_" + i.Comment)
		if !i.Heap {
			st.privRefs = append(st.privRefs, r)
		}
		if at, ok := el.Underlying().(*types.Array); ok && !isByte(at.Elem()) {
			// pointer to array: the ref names the backing store
			f.vals[i] = PtrV{ObjAddr{r, el}}
			// zero the elements lazily: only small literal arrays occur (varargs)
			for k := int64(0); k < at.Len() && k < 16; k++ {
				st.storeAt(ElemAddr{r, IntLit(k), at.Elem()}, at.Elem(), zeroVal(at.Elem()))
			}
		} else {
			a := ObjAddr{r, el}
			if at, ok := el.Underlying().(*types.Array); ok && isByte(at.Elem()) {
				// a zeroed [N]byte: N zero bytes
				z := reg.uf("sf_zerobytes", SStr, IntLit(at.Len()))
				st.assume(Eq(App(SInt, "str.len", z), IntLit(at.Len())))
				st.storeAt(a, el, Sc{z})
			} else {
				st.storeAt(a, el, zeroVal(el))
			}
			x.zeroGhost(st, r)
			f.vals[i] = PtrV{a}
		}
		f.pc++
	case *ssa.Store:
		p := x.val(st, f, i.Addr)
		v := x.val(st, f, i.Val)
		pv, ok := p.(PtrV)
		if !ok {
			bail("store through non-pointer %T", p)
		}
		x.checkGuard(st, pv.A, true)
		st.storeAt(pv.A, i.Val.Type(), v)
		f.pc++
	case *ssa.UnOp:
		f.vals[i] = x.unop(st, f, i)
		f.pc++
	case *ssa.BinOp:
		f.vals[i] = x.binop(st, i.Op, x.val(st, f, i.X), x.val(st, f, i.Y), i.X.Type(), i)
		f.pc++
	case *ssa.FieldAddr:
		p := x.val(st, f, i.X).(PtrV)
		stt := i.X.Type().Underlying().(*types.Pointer).Elem().Underlying().(*types.Struct)
		f.vals[i] = PtrV{FldAddr{p.A, i.Field, stt}}
		f.pc++
	case *ssa.Field:
		sv := x.val(st, f, i.X).(StructV)
		f.vals[i] = sv.F[i.Field]
		f.pc++
	case *ssa.IndexAddr:
		f.vals[i] = x.indexAddr(st, f, i)
		f.pc++
	case *ssa.Index:
		f.vals[i] = x.index(st, f, i)
		f.pc++
	case *ssa.Lookup:
		f.vals[i] = x.lookup(st, f, i)
		f.pc++
	case *ssa.MapUpdate:
		x.mapUpdate(st, f, i)
		f.pc++
	case *ssa.MakeMap:
		r := st.newRef("map")
		kt, vt := mapKV(i.Type())
		fam := mapFam(kt, vt)
		// fresh map is empty
		emp := reg.fresh("emptydom")
		reg.declare(emp, fmt.Sprintf("(declare-const %s (Array %s Bool))", emp, keySort(kt)))
		st.asserts = append(st.asserts, fmt.Sprintf("(= %s ((as const (Array %s Bool)) false))", emp, keySort(kt)))
		h := st.heap("MD|"+fam, []Sort{SInt, keySort(kt)}, SBool)
		n := newHeapConst("MD|"+fam, h.Dims, h.Elem, "h")
		st.asserts = append(st.asserts, fmt.Sprintf("(= %s (store %s %s %s))", n.Name, h.Name, r.S, emp))
		st.heaps["MD|"+fam] = n
		st.recWriteH(h, r)
		st.assume(Eq(x.mapLen(st, r, kt, vt), IntLit(0)))
		f.vals[i] = Sc{r}
		f.pc++
	case *ssa.MakeSlice:
		el := i.Type().Underlying().(*types.Slice).Elem()
		ln := x.val(st, f, i.Len).(Sc).T
		if isByte(el) {
			// a zeroed byte string of that length: unknown content of known length
			s := reg.freshConst("bytes", SStr)
			st.assume(Eq(App(SInt, "str.len", s), ln))
			f.vals[i] = Sc{s}
		} else {
			r := st.newRef("mkslice")
			f.vals[i] = SliceV{r, IntLit(0), ln, el}
			// elements are zero: assert for the first few when the length is a literal
			if n, ok := isIntLit(ln); ok && n <= 8 {
				for k := int64(0); k < n; k++ {
					st.storeAt(ElemAddr{r, IntLit(k), el}, el, zeroVal(el))
				}
			}
		}
		f.pc++
	case *ssa.Slice:
		f.vals[i] = x.slice(st, f, i)
		f.pc++
	case *ssa.Convert:
		f.vals[i] = x.convert(st, f, i)
		f.pc++
	case *ssa.ChangeType:
		f.vals[i] = x.changeType(st, x.val(st, f, i.X), i.X.Type(), i.Type())
		f.pc++
	case *ssa.ChangeInterface:
		f.vals[i] = x.val(st, f, i.X)
		f.pc++
	case *ssa.MakeInterface:
		f.vals[i] = x.makeIface(st, x.val(st, f, i.X), i.X.Type())
		f.pc++
	case *ssa.TypeAssert:
		f.vals[i] = x.typeAssert(st, f, i)
		f.pc++
	case *ssa.Extract:
		tv := x.val(st, f, i.Tuple).(TupleV)
		f.vals[i] = tv.E[i.Index]
		f.pc++
	case *ssa.Phi:
		for k, p := range f.block.Preds {
			if p == f.prev {
				f.vals[i] = x.val(st, f, i.Edges[k])
				break
			}
		}
		if _, ok := f.vals[i]; !ok {
			bail("phi without matching predecessor in %s", f.fn)
		}
		f.pc++
	case *ssa.MakeClosure:
		c := &ClosV{Fn: i.Fn.(*ssa.Function)}
		for _, b := range i.Bindings {
			c.Binds = append(c.Binds, x.val(st, f, b))
		}
		f.vals[i] = c
		f.pc++
	case *ssa.Range:
		// map iteration: remember the map and the (ghost) set of keys already visited
		if _, isMap := i.X.Type().Underlying().(*types.Map); !isMap {
			bail("range over %s", i.X.Type())
		}
		kt, _ := mapKV(i.X.Type())
		vis := reg.fresh("visited")
		reg.declare(vis, fmt.Sprintf("(declare-const %s (Array %s Bool))", vis, keySort(kt)))
		st.asserts = append(st.asserts, fmt.Sprintf("(= %s ((as const (Array %s Bool)) false))", vis, keySort(kt)))
		f.vals[i] = RangeV{M: x.val(st, f, i.X).(Sc).T, Visited: vis}
		f.pc++
	case *ssa.Next:
		f.vals[i] = x.next(st, f, i)
		f.pc++
	case *ssa.Jump:
		return x.enter(st, f, f.block.Succs[0])
	case *ssa.If:
		c := x.val(st, f, i.Cond).(Sc).T
		if c.S == "true" {
			return x.enter(st, f, f.block.Succs[0])
		}
		if c.S == "false" {
			return x.enter(st, f, f.block.Succs[1])
		}
		other := st.clone()
		of := other.top()
		other.assume(Not(c))
		other.trace = append(other.trace, fmt.Sprintf("%s:b%d-F", f.fn.Name(), f.block.Index))
		st.assume(c)
		st.trace = append(st.trace, fmt.Sprintf("%s:b%d-T", f.fn.Name(), f.block.Index))
		var out []*State
		out = append(out, x.enter(other, of, of.block.Succs[1])...)
		if !other.dead {
			out = append(out, other)
		}
		out = append(out, x.enter(st, f, f.block.Succs[0])...)
		return out
	case *ssa.Return:
		return x.doReturn(st, f, i)
	case *ssa.RunDefers:
		if len(f.defers) > 0 {
			d := f.defers[len(f.defers)-1]
			f.defers = f.defers[:len(f.defers)-1]
			// execute the deferred call; re-run this RunDefers afterwards
			return x.call(st, f, d.call, nil, d.args, d.fnv, true)
		}
		f.pc++
	case *ssa.Defer:
		args, fnv := x.evalCallOperands(st, f, &i.Call)
		f.defers = append(f.defers, deferred{&i.Call, args, fnv})
		f.pc++
	case *ssa.Go:
		st.notes = append(st.notes, "spawn:"+i.Call.Value.Name())
		st.ghost["$spawns"] = Add(st.ghostInt("$spawns"), IntLit(1))
		// the go statement is a call site for sinks and anchors (what the goroutine is started with)
		gargs, _ := x.evalCallOperands(st, f, &i.Call)
		x.checkSinks(st, f, &i.Call, gargs)
		x.recordAnchor(st, f, &i.Call, gargs, nil, st.snap())
		x.noteLib("go statement: spawned goroutine body not executed in this function (" + shortCallName(&i.Call) + ")")
		f.pc++
	case *ssa.Call:
		args, fnv := x.evalCallOperands(st, f, &i.Call)
		return x.call(st, f, &i.Call, i, args, fnv, false)
	case *ssa.Panic:
		x.emit(st, "unreachable-panic", fmt.Sprintf("b%d", f.block.Index), "explicit panic must be unreachable", nil, TFalse)
		st.dead = true
	case *ssa.MakeChan:
		// channels carry no modelled state: a fresh reference; what is received is arbitrary
		x.noteLib("channels: send has no modelled effect, receive and select yield arbitrary values/choices")
		f.vals[i] = Sc{st.newRef("chan")}
		f.pc++
	case *ssa.Send:
		x.noteLib("channels: send has no modelled effect, receive and select yield arbitrary values/choices")
		f.pc++
	case *ssa.Select:
		x.noteLib("channels: send has no modelled effect, receive and select yield arbitrary values/choices")
		idx := reg.freshConst("select", SInt)
		lo := int64(0)
		if !i.Blocking {
			lo = -1
		}
		st.assume(And(Cmp(">=", idx, IntLit(lo)), Cmp("<", idx, IntLit(int64(len(i.States))))))
		st.ghost["$selected"] = idx
		tv := TupleV{E: []Val{Sc{idx}, Sc{reg.freshConst("recvok", SBool)}}}
		for _, sst := range i.States {
			if sst.Dir == types.RecvOnly {
				tv.E = append(tv.E, st.freshVal(sst.Chan.Type().Underlying().(*types.Chan).Elem(), "recv"))
			}
		}
		f.vals[i] = tv
		f.pc++
	default:
		bail("instruction %T in %s", in, f.fn)
	}
	return nil
}

func shortCallName(c *ssa.CallCommon) string {
	if c.IsInvoke() {
		return c.Method.FullName()
	}
	if f := c.StaticCallee(); f != nil {
		return f.String()
	}
	return c.Value.Name()
}


// enter moves control of frame f to block b, handling loop cuts.
func (x *Exec) enter(st *State, f *Frame, b *ssa.BasicBlock) []*State {
	from := f.block
	// dry-run boundaries
	if f.dryHeader != nil && (b == f.dryHeader || !f.dryBody[b]) {
		st.dead = true
		return nil
	}
	li := x.eng.loops(f.fn)
	if lp, ok := li.headers[b]; ok {
		if f.visited[b] && li.inBody(lp, from) {
			// back edge: invariant preserved, path ends
			f.prev, f.block, f.pc = from, b, 0
			x.execPhis(st, f)
			x.checkInvariants(st, f, lp, "invariant-preserved")
			st.dead = true
			return nil
		}
		// entry edge
		f.prev, f.block, f.pc = from, b, 0
		x.execPhis(st, f)
		x.checkInvariants(st, f, lp, "invariant-entry")
		x.havocLoop(st, f, lp)
		x.assumeInvariants(st, f, lp)
		f.visited[b] = true
		return nil
	}
	f.prev, f.block, f.pc = from, b, 0
	return nil
}

// execPhis evaluates the phi nodes at the head of the current block.
func (x *Exec) execPhis(st *State, f *Frame) {
	// phis must be evaluated simultaneously
	newv := map[ssa.Value]Val{}
	for f.pc < len(f.block.Instrs) {
		phi, ok := f.block.Instrs[f.pc].(*ssa.Phi)
		if !ok {
			break
		}
		for k, p := range f.block.Preds {
			if p == f.prev {
				newv[phi] = x.val(st, f, phi.Edges[k])
				break
			}
		}
		f.pc++
	}
	for k, v := range newv {
		f.vals[k] = v
	}
}

// ---------------------------------------------------------------------------
// Operators

func (x *Exec) unop(st *State, f *Frame, i *ssa.UnOp) Val {
	v := x.val(st, f, i.X)
	switch i.Op {
	case token.MUL:
		p, ok := v.(PtrV)
		if !ok {
			bail("deref of %T", v)
		}
		x.checkGuard(st, p.A, false)
		return st.loadAt(p.A, i.Type())
	case token.NOT:
		return Sc{Not(v.(Sc).T)}
	case token.SUB:
		return Sc{Sub(IntLit(0), v.(Sc).T)}
	case token.ARROW:
		x.noteLib("channels: send has no modelled effect, receive and select yield arbitrary values/choices")
		et := i.X.Type().Underlying().(*types.Chan).Elem()
		rv := st.freshVal(et, "recv")
		if i.CommaOk {
			return TupleV{E: []Val{rv, Sc{reg.freshConst("recvok", SBool)}}}
		}
		return rv
	case token.XOR:
		return Sc{reg.uf("u_bitnot", SInt, v.(Sc).T)}
	}
	bail("unop %s", i.Op)
	return nil
}

func isFloat(t types.Type) bool {
	b, ok := t.Underlying().(*types.Basic)
	return ok && b.Info()&types.IsFloat != 0
}

func (x *Exec) binop(st *State, op token.Token, a, b Val, t types.Type, at ssa.Instruction) Val {
	switch op {
	case token.EQL:
		return Sc{x.valEq(st, a, b)}
	case token.NEQ:
		return Sc{Not(x.valEq(st, a, b))}
	}
	as, ok1 := a.(Sc)
	bs, ok2 := b.(Sc)
	if !ok1 || !ok2 {
		bail("binop %s on %T,%T", op, a, b)
	}
	A, B := as.T, bs.T
	if isFloat(t) {
		switch op {
		case token.LSS, token.LEQ, token.GTR, token.GEQ:
			return Sc{reg.uf("u_fcmp_"+mangle(op.String()), SBool, A, B)}
		}
		return Sc{reg.uf("u_fop_"+mangle(op.String()), SInt, A, B)}
	}
	switch op {
	case token.ADD:
		if A.Sort == SStr {
			return Sc{strConcat(A, B)}
		}
		return Sc{Add(A, B)}
	case token.SUB:
		return Sc{Sub(A, B)}
	case token.MUL:
		return Sc{App(SInt, "*", A, B)}
	case token.QUO:
		x.emit(st, "div-by-zero", posOf(at), "divisor != 0", nil, Not(Eq(B, IntLit(0))))
		// Go truncates toward zero
		q := App(SInt, "div", App(SInt, "abs", A), App(SInt, "abs", B))
		neg := Term{fmt.Sprintf("(xor (< %s 0) (< %s 0))", A.S, B.S), SBool}
		return Sc{Ite(neg, Sub(IntLit(0), q), q)}
	case token.REM:
		x.emit(st, "div-by-zero", posOf(at), "divisor != 0", nil, Not(Eq(B, IntLit(0))))
		r := App(SInt, "mod", App(SInt, "abs", A), App(SInt, "abs", B))
		return Sc{Ite(Cmp("<", A, IntLit(0)), Sub(IntLit(0), r), r)}
	case token.LSS:
		if A.Sort == SStr {
			return Sc{App(SBool, "str.<", A, B)}
		}
		return Sc{Cmp("<", A, B)}
	case token.LEQ:
		if A.Sort == SStr {
			return Sc{App(SBool, "str.<=", A, B)}
		}
		return Sc{Cmp("<=", A, B)}
	case token.GTR:
		if A.Sort == SStr {
			return Sc{App(SBool, "str.<", B, A)}
		}
		return Sc{Cmp(">", A, B)}
	case token.GEQ:
		if A.Sort == SStr {
			return Sc{App(SBool, "str.<=", B, A)}
		}
		return Sc{Cmp(">=", A, B)}
	case token.LAND, token.LOR:
		bail("logical op in SSA")
	case token.AND, token.OR, token.XOR, token.SHL, token.SHR, token.AND_NOT:
		if A.Sort == SBool {
			switch op {
			case token.AND:
				return Sc{And(A, B)}
			case token.OR:
				return Sc{Or(A, B)}
			}
		}
		return Sc{reg.uf("u_bitop_"+mangle(op.String()), SInt, A, B)}
	}
	bail("binop %s", op)
	return nil
}

func posOf(i ssa.Instruction) string {
	if i == nil || i.Block() == nil {
		return ""
	}
	// stable detail: block-relative ordinal of this kind is enough; avoid line numbers
	b := i.Block()
	n := 0
	for _, in := range b.Instrs {
		if in == i {
			break
		}
		n++
	}
	return fmt.Sprintf("b%d.%d", b.Index, n)
}

func strConcat(a, b Term) Term {
	if isStrLit(a) && a.S == `""` {
		return b
	}
	if isStrLit(b) && b.S == `""` {
		return a
	}
	return App(SStr, "str.++", a, b)
}

// valEq is Go's == on two values of the same type.
func (x *Exec) valEq(st *State, a, b Val) Term {
	switch av := a.(type) {
	case Sc:
		if bv, ok := b.(Sc); ok {
			return Eq(av.T, bv.T)
		}
		if bv, ok := b.(*ClosV); ok {
			return Eq(av.T, closID(bv))
		}
	case PtrV:
		return Eq(st.addrTerm(av.A), st.addrTerm(b.(PtrV).A))
	case IfaceV:
		bv := b.(IfaceV)
		// comparison with the nil interface: the type tag decides
		if bv.Tag.S == "0" {
			return Eq(av.Tag, IntLit(0))
		}
		if av.Tag.S == "0" {
			return Eq(bv.Tag, IntLit(0))
		}
		return And(Eq(av.Tag, bv.Tag), Eq(av.Pay, bv.Pay))
	case StructV:
		bv := b.(StructV)
		var cs []Term
		for i := range av.F {
			cs = append(cs, x.valEq(st, av.F[i], bv.F[i]))
		}
		return And(cs...)
	case SliceV:
		// only comparison with nil is legal Go
		bv := b.(SliceV)
		return And(Eq(av.Arr, bv.Arr), Eq(av.Len, bv.Len))
	case *ClosV:
		if bv, ok := b.(Sc); ok {
			return Eq(closID(av), bv.T)
		}
	}
	bail("== on %T,%T", a, b)
	return TFalse
}

func (x *Exec) indexAddr(st *State, f *Frame, i *ssa.IndexAddr) Val {
	base := x.val(st, f, i.X)
	idx := x.val(st, f, i.Index).(Sc).T
	switch b := base.(type) {
	case SliceV:
		x.bounds(st, i, idx, b.Len)
		return PtrV{ElemAddr{b.Arr, Add(b.Off, idx), b.Elem}}
	case PtrV:
		// pointer to array
		oa, ok := b.A.(ObjAddr)
		if !ok {
			bail("index of non-object array pointer")
		}
		at := oa.Elem.Underlying().(*types.Array)
		x.bounds(st, i, idx, IntLit(at.Len()))
		return PtrV{ElemAddr{oa.Ref, idx, at.Elem()}}
	}
	if b, ok := base.(Sc); ok && b.T.Sort == SStr {
		// &b[i] of a byte slice (modelled as a string): readable, not writable
		x.bounds(st, i, idx, App(SInt, "str.len", b.T))
		return PtrV{ByteAddr{b.T, idx}}
	}
	bail("IndexAddr on %T", base)
	return nil
}

func (x *Exec) bounds(st *State, at ssa.Instruction, idx, ln Term) {
	g := And(Cmp("<=", IntLit(0), idx), Cmp("<", idx, ln))
	if g.S == "true" {
		return
	}
	x.emit(st, "bounds", posOf(at), fmt.Sprintf("0 <= index < len at %s", instrText(at)), nil, g)
	st.assume(g) // execution continues only if the access did not panic
}

func instrText(i ssa.Instruction) string {
	s := i.String()
	if len(s) > 60 {
		s = s[:60]
	}
	return s
}

func (x *Exec) index(st *State, f *Frame, i *ssa.Index) Val {
	base := x.val(st, f, i.X)
	idx := x.val(st, f, i.Index).(Sc).T
	switch b := base.(type) {
	case Sc:
		if b.T.Sort == SStr {
			x.bounds(st, i, idx, App(SInt, "str.len", b.T))
			return Sc{App(SInt, "str.to_code", App(SStr, "str.at", b.T, idx))}
		}
	case SliceV:
		x.bounds(st, i, idx, b.Len)
		return st.loadAt(ElemAddr{b.Arr, Add(b.Off, idx), b.Elem}, b.Elem)
	}
	bail("Index on %T", base)
	return nil
}

func mapKV(t types.Type) (types.Type, types.Type) {
	m := t.Underlying().(*types.Map)
	return m.Key(), m.Elem()
}

func keySort(k types.Type) Sort {
	ls := leavesOf(k)
	if len(ls) != 1 {
		bail("map key type %s", k)
	}
	return ls[0].Sort
}

func mapFam(k, v types.Type) string { return canon(k) + ">" + canon(v) }

func (x *Exec) mapKey(st *State, k Val) Term {
	ls := st.flatten(k)
	if len(ls) != 1 {
		bail("composite map key")
	}
	return ls[0]
}

func (x *Exec) mapHas(st *State, m Term, kt, vt types.Type, key Term) Term {
	return st.load("MD|"+mapFam(kt, vt), []Sort{SInt, keySort(kt)}, SBool, []Term{m, key})
}

func (x *Exec) mapGet(st *State, m Term, kt, vt types.Type, key Term) Val {
	fam := mapFam(kt, vt)
	has := x.mapHas(st, m, kt, vt, key)
	var ls []Term
	zs := st.flatten(zeroVal(vt))
	for k, l := range leavesOf(vt) {
		markRef("MV|"+fam+"|"+l.Path, l)
		v := st.load("MV|"+fam+"|"+l.Path, []Sort{SInt, keySort(kt)}, l.Sort, []Term{m, key})
		ls = append(ls, Ite(has, v, zs[k]))
	}
	v, _ := unflatten(vt, ls)
	st.assumeWF(v, vt)
	st.assumeAllocated(v) // whatever a map holds existed before anything allocated from now on
	return v
}

func (x *Exec) mapLen(st *State, m Term, kt, vt types.Type) Term {
	// cardinality as an uninterpreted function of the domain row
	h := st.heap("MD|"+mapFam(kt, vt), []Sort{SInt, keySort(kt)}, SBool)
	name := "u_card_" + keySort(kt).String()
	reg.declare(name, fmt.Sprintf("(declare-fun %s ((Array %s Bool)) Int)", name, keySort(kt)))
	return Term{fmt.Sprintf("(%s (select %s %s))", name, h.Name, m.S), SInt}
}

func (x *Exec) lookup(st *State, f *Frame, i *ssa.Lookup) Val {
	base := x.val(st, f, i.X)
	if _, ok := i.X.Type().Underlying().(*types.Map); ok {
		kt, vt := mapKV(i.X.Type())
		m := base.(Sc).T
		key := x.mapKey(st, x.val(st, f, i.Index))
		v := x.mapGet(st, m, kt, vt, key)
		st.assumeWF(v, vt)
		if i.CommaOk {
			return TupleV{[]Val{v, Sc{x.mapHas(st, m, kt, vt, key)}}}
		}
		return v
	}
	// string index
	s := base.(Sc).T
	idx := x.val(st, f, i.Index).(Sc).T
	x.bounds(st, i, idx, App(SInt, "str.len", s))
	return Sc{App(SInt, "str.to_code", App(SStr, "str.at", s, idx))}
}

func (x *Exec) mapUpdate(st *State, f *Frame, i *ssa.MapUpdate) {
	kt, vt := mapKV(i.Map.Type())
	m := x.val(st, f, i.Map).(Sc).T
	x.emit(st, "nil-map-write", posOf(i), "map != nil at "+instrText(i), nil, Not(Eq(m, IntLit(0))))
	x.checkGuardedMapWrite(st, m)
	key := x.mapKey(st, x.val(st, f, i.Key))
	x.mapStore(st, m, kt, vt, key, x.val(st, f, i.Value))
}

func (x *Exec) mapStore(st *State, m Term, kt, vt types.Type, key Term, v Val) {
	fam := mapFam(kt, vt)
	ks := keySort(kt)
	st.store("MD|"+fam, []Sort{SInt, ks}, SBool, []Term{m, key}, TTrue)
	ls := st.flatten(v)
	for k, l := range leavesOf(vt) {
		markRef("MV|"+fam+"|"+l.Path, l)
		st.store("MV|"+fam+"|"+l.Path, []Sort{SInt, ks}, l.Sort, []Term{m, key}, ls[k])
	}
}

func (x *Exec) mapDelete(st *State, m Term, kt, vt types.Type, key Term) {
	fam := mapFam(kt, vt)
	st.store("MD|"+fam, []Sort{SInt, keySort(kt)}, SBool, []Term{m, key}, TFalse)
}

func (x *Exec) next(st *State, f *Frame, i *ssa.Next) Val {
	rng := i.Iter.(*ssa.Range)
	if i.IsString {
		bail("range over string")
	}
	kt, vt := mapKV(rng.X.Type())
	rv := x.val(st, f, rng).(RangeV)
	m := rv.M
	ok := reg.freshConst("next_ok", SBool)
	k := st.freshVal(kt, "next_k")
	key := x.mapKey(st, k)
	ks := keySort(kt)
	// ok ==> key is in the map and not yet visited; it becomes visited.
	// !ok ==> every key of the map has been visited. (The map is assumed not to change during the iteration.)
	st.assume(Implies(ok, And(x.mapHas(st, m, kt, vt, key), Not(Term{fmt.Sprintf("(select %s %s)", rv.Visited, key.S), SBool}))))
	dom := st.heap("MD|"+mapFam(kt, vt), []Sort{SInt, ks}, SBool)
	q := reg.fresh("qk")
	st.asserts = append(st.asserts, fmt.Sprintf("(=> (not %s) (forall ((%s %s)) (! (=> (select (select %s %s) %s) (select %s %s)) :pattern ((select %s %s)))))", ok.S, q, ks, dom.Name, m.S, q, rv.Visited, q, rv.Visited, q))
	nv := reg.fresh("visited")
	reg.declare(nv, fmt.Sprintf("(declare-const %s (Array %s Bool))", nv, ks))
	st.asserts = append(st.asserts, fmt.Sprintf("(= %s (ite %s (store %s %s true) %s))", nv, ok.S, rv.Visited, key.S, rv.Visited))
	f.vals[rng] = RangeV{M: m, Visited: nv}
	v := x.mapGet(st, m, kt, vt, key)
	x.noteLib("map iteration: Next yields a present, not yet visited key; when it reports the end every key has been visited (the map is not modified during the iteration)")
	return TupleV{[]Val{Sc{ok}, k, v}}
}

func (x *Exec) slice(st *State, f *Frame, i *ssa.Slice) Val {
	base := x.val(st, f, i.X)
	var lo, hi Term
	has := func(v ssa.Value) bool { return v != nil }
	if has(i.Low) {
		lo = x.val(st, f, i.Low).(Sc).T
	} else {
		lo = IntLit(0)
	}
	switch b := base.(type) {
	case Sc: // string or []byte
		ln := App(SInt, "str.len", b.T)
		if has(i.High) {
			hi = x.val(st, f, i.High).(Sc).T
		} else {
			hi = ln
		}
		g := And(Cmp("<=", IntLit(0), lo), Cmp("<=", lo, hi), Cmp("<=", hi, ln))
		if g.S != "true" {
			x.emit(st, "bounds", posOf(i), "0 <= lo <= hi <= len at "+instrText(i), nil, g)
			st.assume(g)
		}
		if lo.S == "0" && hi.S == ln.S {
			return b
		}
		return Sc{App(SStr, "str.substr", b.T, lo, Sub(hi, lo))}
	case SliceV:
		if has(i.High) {
			hi = x.val(st, f, i.High).(Sc).T
		} else {
			hi = b.Len
		}
		// cap is not modelled: reslicing beyond len is reported as a bounds failure
		g := And(Cmp("<=", IntLit(0), lo), Cmp("<=", lo, hi), Cmp("<=", hi, b.Len))
		if g.S != "true" {
			x.emit(st, "bounds", posOf(i), "0 <= lo <= hi <= len at "+instrText(i), nil, g)
			st.assume(g)
		}
		if lo.S == "0" {
			return SliceV{b.Arr, IntLit(0), hi, b.Elem}
		}
		return x.copySlice(st, b, lo, Sub(hi, lo))
	case PtrV:
		oa, ok := b.A.(ObjAddr)
		if !ok {
			bail("slice of interior array")
		}
		at := oa.Elem.Underlying().(*types.Array)
		if has(i.High) {
			hi = x.val(st, f, i.High).(Sc).T
		} else {
			hi = IntLit(at.Len())
		}
		if isByte(at.Elem()) {
			cur := st.loadAt(oa, oa.Elem).(Sc).T
			if lo.S == "0" && hi.S == IntLit(at.Len()).S {
				return Sc{cur}
			}
			return Sc{App(SStr, "str.substr", cur, lo, Sub(hi, lo))}
		}
		if lo.S != "0" {
			return x.copySlice(st, SliceV{oa.Ref, IntLit(0), IntLit(at.Len()), at.Elem()}, lo, Sub(hi, lo))
		}
		return SliceV{oa.Ref, IntLit(0), hi, at.Elem()}
	}
	bail("Slice on %T", base)
	return nil
}

func (x *Exec) convert(st *State, f *Frame, i *ssa.Convert) Val {
	v := x.val(st, f, i.X)
	from, to := i.X.Type().Underlying(), i.Type().Underlying()
	fl, tl := leavesOf(from), leavesOf(to)
	if len(fl) == 1 && len(tl) == 1 && fl[0].Sort == tl[0].Sort {
		if isFloat(from) != isFloat(to) {
			return Sc{reg.uf("u_floatconv", SInt, v.(Sc).T)}
		}
		// string <-> []byte, int widths (mathematical integers), named basics
		if fb, ok := from.(*types.Basic); ok && fb.Info()&types.IsInteger != 0 {
			if tb, ok := to.(*types.Basic); ok && tb.Info()&types.IsInteger != 0 {
				x.noteLib("integer conversion " + fb.Name() + "->" + tb.Name() + " treated as identity (mathematical integers)")
			}
		}
		return v
	}
	if fb, ok := from.(*types.Basic); ok && fb.Info()&types.IsInteger != 0 && tl[0].Sort == SStr {
		return Sc{App(SStr, "str.from_code", v.(Sc).T)}
	}
	bail("conversion %s -> %s", i.X.Type(), i.Type())
	return nil
}

func (x *Exec) changeType(st *State, v Val, from, to types.Type) Val {
	if pf, ok := from.Underlying().(*types.Pointer); ok {
		if pt, ok := to.Underlying().(*types.Pointer); ok {
			if canon(pf.Elem()) != canon(pt.Elem()) {
				bail("pointer conversion between %s and %s", from, to)
			}
		}
	}
	if sv, ok := v.(StructV); ok {
		sv.T = to
		return sv
	}
	if c, ok := v.(*ClosV); ok {
		return c
	}
	if p, ok := v.(PtrV); ok {
		if oa, ok := p.A.(ObjAddr); ok {
			return PtrV{ObjAddr{oa.Ref, to.Underlying().(*types.Pointer).Elem()}}
		}
	}
	return v
}

// makeIface boxes a concrete value into an interface value.
func (x *Exec) makeIface(st *State, v Val, t types.Type) Val {
	if _, ok := t.Underlying().(*types.Interface); ok {
		return v
	}
	tag := reg.typeTag(t)
	ls := st.flatten(v)
	if len(ls) == 1 && ls[0].Sort == SInt {
		return IfaceV{tag, ls[0]}
	}
	// boxed value: injective uninterpreted constructor
	fn := "box" + mangle(types.TypeString(t, nil))[1:]
	pay := reg.uf(fn, SInt, ls...)
	for k, l := range ls {
		st.assume(Eq(reg.uf(fmt.Sprintf("%s_get%d", fn, k), l.Sort, pay), l))
	}
	boxedLeaves.Store(pay.S, ls)
	return IfaceV{tag, pay}
}

func unbox(st *State, iv IfaceV, t types.Type) Val {
	lv := leavesOf(t)
	if len(lv) == 1 && lv[0].Sort == SInt {
		v, _ := unflatten(t, []Term{iv.Pay})
		return v
	}
	if orig, ok := boxedLeaves.Load(iv.Pay.S); ok {
		// the value boxed by this very term: its components are known syntactically
		if ls := orig.([]Term); len(ls) == len(lv) {
			v, _ := unflatten(t, ls)
			return v
		}
	}
	fn := "box" + mangle(types.TypeString(t, nil))[1:]
	var ls []Term
	for k, l := range lv {
		ls = append(ls, reg.uf(fmt.Sprintf("%s_get%d", fn, k), l.Sort, iv.Pay))
	}
	v, _ := unflatten(t, ls)
	st.assumeWF(v, t)
	return v
}

func (x *Exec) typeAssert(st *State, f *Frame, i *ssa.TypeAssert) Val {
	iv := x.val(st, f, i.X).(IfaceV)
	if _, ok := i.AssertedType.Underlying().(*types.Interface); ok {
		// interface-to-interface: succeeds iff non-nil and implements; implementation is not modelled
		ok := implementsTerm(iv.Tag, i.AssertedType)
		st.assume(Implies(ok, Not(Eq(iv.Tag, IntLit(0)))))
		if i.CommaOk {
			res := IfaceV{Ite(ok, iv.Tag, IntLit(0)), Ite(ok, iv.Pay, IntLit(0))}
			return TupleV{[]Val{res, Sc{ok}}}
		}
		x.emit(st, "typeassert", posOf(i), "interface assertion succeeds at "+instrText(i), nil, ok)
		st.assume(ok)
		return iv
	}
	tag := reg.typeTag(i.AssertedType)
	ok := Eq(iv.Tag, tag)
	val := unbox(st, iv, i.AssertedType)
	if i.CommaOk {
		// on failure the result is the zero value
		zs := st.flatten(zeroVal(i.AssertedType))
		vs := st.flatten(val)
		var ls []Term
		for k := range vs {
			ls = append(ls, Ite(ok, vs[k], zs[k]))
		}
		v, _ := unflatten(i.AssertedType, ls)
		return TupleV{[]Val{v, Sc{ok}}}
	}
	x.emit(st, "typeassert", posOf(i), "type assertion succeeds at "+instrText(i), nil, ok)
	st.assume(ok)
	return val
}

// ---------------------------------------------------------------------------
// Return

func (x *Exec) doReturn(st *State, f *Frame, r *ssa.Return) []*State {
	var res []Val
	for _, v := range r.Results {
		res = append(res, x.val(st, f, v))
	}
	if len(st.stack) == 1 {
		if f.dryHeader != nil {
			st.dead = true
			return nil
		}
		x.rootReturn(st, f, res)
		st.dead = true
		return nil
	}
	// inlined callee returns
	st.stack = st.stack[:len(st.stack)-1]
	caller := st.top()
	if f.callC != nil {
		var rv Val
		switch len(res) {
		case 0:
		case 1:
			rv = res[0]
		default:
			rv = TupleV{res}
		}
		x.recordAnchor(st, caller, f.callC, f.callArgs, rv, f.callBefore)
		x.afterCall(st, caller, f.callC)
	}
	if f.isDefer {
		// the RunDefers instruction in the caller is re-executed
		return nil
	}
	if f.ret != nil {
		switch len(res) {
		case 0:
		case 1:
			caller.vals[f.ret] = res[0]
		default:
			caller.vals[f.ret] = TupleV{res}
		}
	}
	caller.pc++
	return nil
}

// ---------------------------------------------------------------------------
// Loops

type loopInfo struct {
	headers map[*ssa.BasicBlock]int // header -> ordinal (1-based, by block index)
	bodies  map[int]map[*ssa.BasicBlock]bool
	hdrOf   map[int]*ssa.BasicBlock
}

func (li *loopInfo) inBody(n int, b *ssa.BasicBlock) bool { return li.bodies[n][b] }

func computeLoops(fn *ssa.Function) *loopInfo {
	li := &loopInfo{headers: map[*ssa.BasicBlock]int{}, bodies: map[int]map[*ssa.BasicBlock]bool{}, hdrOf: map[int]*ssa.BasicBlock{}}
	type be struct{ from, to *ssa.BasicBlock }
	var backs []be
	for _, b := range fn.Blocks {
		for _, s := range b.Succs {
			if s.Dominates(b) {
				backs = append(backs, be{b, s})
			}
		}
	}
	var hdrs []*ssa.BasicBlock
	seen := map[*ssa.BasicBlock]bool{}
	for _, e := range backs {
		if !seen[e.to] {
			seen[e.to] = true
			hdrs = append(hdrs, e.to)
		}
	}
	sort.Slice(hdrs, func(i, j int) bool { return hdrs[i].Index < hdrs[j].Index })
	for k, h := range hdrs {
		n := k + 1
		li.headers[h] = n
		li.hdrOf[n] = h
		body := map[*ssa.BasicBlock]bool{h: true}
		var stack []*ssa.BasicBlock
		for _, e := range backs {
			if e.to == h && !body[e.from] {
				body[e.from] = true
				stack = append(stack, e.from)
			}
		}
		for len(stack) > 0 {
			b := stack[len(stack)-1]
			stack = stack[:len(stack)-1]
			for _, p := range b.Preds {
				if !body[p] {
					body[p] = true
					stack = append(stack, p)
				}
			}
		}
		li.bodies[n] = body
	}
	return li
}

// havocLoop makes everything the loop body may change unknown.
func (x *Exec) havocLoop(st *State, f *Frame, lp int) {
	li := x.eng.loops(f.fn)
	hdr := li.hdrOf[lp]
	// dry run of the body to find written heap families
	dr := &dryRun{written: map[string]*HeapVer{}, at: map[string][]Term{}, unstable: map[string]bool{}, allocd: map[string]bool{}}
	ctr0 := reg.counter()
	{
		saved := x.dry
		x.dry = dr
		scratch := st.clone()
		scratch.rec = dr
		// only the top frame continues; callers are irrelevant for the dry run
		sf := scratch.top()
		scratch.stack = []*Frame{sf}
		sf.dryHeader = hdr
		sf.dryBody = li.bodies[lp]
		sf.visited[hdr] = true
		sf.block, sf.pc = hdr, 0
		// skip phis
		for sf.pc < len(hdr.Instrs) {
			if _, ok := hdr.Instrs[sf.pc].(*ssa.Phi); !ok {
				break
			}
			sf.pc++
		}
		paths := x.paths
		func() {
			defer func() { x.dry = saved; x.paths = paths }()
			x.run(scratch)
		}()
	}
	// allocation set only grows
	{
		n := newHeapConst("alloc", []Sort{SInt}, SBool, "al")
		st.asserts = append(st.asserts, fmt.Sprintf("(forall ((r Int)) (! (=> (select %s r) (select %s r)) :pattern ((select %s r))))", st.alloc.Name, n.Name, n.Name))
		st.alloc = n
	}
	// phis of the header
	for _, in := range hdr.Instrs {
		phi, ok := in.(*ssa.Phi)
		if !ok {
			break
		}
		f.vals[phi] = st.freshVal(phi.Type(), "loop_"+phi.Comment)
		st.assumeAllocated(f.vals[phi])
		// a slice that is only ever built here (literal / make, extended by append) has a backing array
		// that did not exist when the function was entered
		if sv, ok := f.vals[phi].(SliceV); ok && st.alloc0 != nil && builtLocally(phi) {
			st.assume(Or(Eq(sv.Arr, IntLit(0)), Not(Term{fmt.Sprintf("(select %s %s)", st.alloc0.Name, sv.Arr.S), SBool})))
		}
	}
	// visited sets of map iterations advanced inside the loop
	for v, val := range f.vals {
		rv, ok := val.(RangeV)
		if !ok {
			continue
		}
		rng := v.(*ssa.Range)
		inLoop := false
		for _, r := range *rng.Referrers() {
			if nx, ok := r.(*ssa.Next); ok && li.bodies[lp][nx.Block()] {
				inLoop = true
			}
		}
		if inLoop {
			kt, _ := mapKV(rng.X.Type())
			nv := reg.fresh("visited")
			reg.declare(nv, fmt.Sprintf("(declare-const %s (Array %s Bool))", nv, keySort(kt)))
			f.vals[v] = RangeV{M: rv.M, Visited: nv}
		}
	}
	if dr.all {
		// private cells the body never writes keep their contents across the loop-head havoc
		var keep []Term
		for _, r := range st.privRefs {
			writtenInBody := false
			for _, ixs := range dr.at {
				for _, ix := range ixs {
					if ix.S == r.S {
						writtenInBody = true
					}
				}
			}
			if !writtenInBody {
				keep = append(keep, r)
			}
		}
		st.havocAllKeeping("loop body with uncontracted call", keep)
	} else {
		var fams []string
		for fam := range dr.written {
			fams = append(fams, fam)
		}
		sort.Strings(fams)
		for _, fam := range fams {
			if fam == "alloc" {
				continue
			}
			// locations of objects allocated inside the loop body do not matter outside;
			// conservatively havoc the whole family.
			h := dr.written[fam]
			pre := st.heap(fam, h.Dims, h.Elem)
			nh := newHeapConst(fam, h.Dims, h.Elem, "lp")
			st.heaps[fam] = nh
			// loop frame: locations of objects that existed before the loop and are not
			// written by the body (writes to objects allocated inside the body, or at
			// loop-invariant indices, are accounted for) keep their values.
			if len(h.Dims) >= 1 && h.Dims[0] == SInt && !dr.unstable[fam] {
				var excl []string
				ok := true
				for _, ix := range dr.at[fam] {
					switch classifyIdx(ix, ctr0, dr) {
					case "fresh":
					case "stable":
						excl = append(excl, ix.S)
					default:
						ok = false
					}
				}
				if ok {
					cond := fmt.Sprintf("(select %s r)", st.alloc.Name)
					for _, e := range excl {
						cond = fmt.Sprintf("(and %s (not (= r %s)))", cond, e)
					}
					st.asserts = append(st.asserts, fmt.Sprintf("(forall ((r Int)) (! (=> %s (= (select %s r) (select %s r))) :pattern ((select %s r))))", cond, nh.Name, pre.Name, nh.Name))
				}
			}
		}
	}
	// references held in the havocked families denote objects that exist
	if !dr.all {
		for _, fam := range famsSorted(dr.written) {
			if hh := st.heaps[fam]; hh != nil && strings.HasSuffix(fam, "#len") && hh.Elem == SInt && len(hh.Dims) >= 1 {
				st.asserts = append(st.asserts, lenNonNeg(hh))
			}
			if _, ok := refFams.Load(fam); !ok {
				continue
			}
			h := st.heaps[fam]
			if h == nil || h.Elem != SInt {
				continue
			}
			switch len(h.Dims) {
			case 1:
				st.asserts = append(st.asserts, fmt.Sprintf("(forall ((r Int)) (! (=> (select %s r) (or (= (select %s r) 0) (select %s (select %s r)))) :pattern ((select %s r))))", st.alloc.Name, h.Name, st.alloc.Name, h.Name, h.Name))
			case 2:
				st.asserts = append(st.asserts, fmt.Sprintf("(forall ((r Int) (k %s)) (! (=> (select %s r) (or (= (select (select %s r) k) 0) (select %s (select (select %s r) k)))) :pattern ((select (select %s r) k))))", h.Dims[1], st.alloc.Name, h.Name, st.alloc.Name, h.Name, h.Name))
			}
		}
	}
	if dr.clock || dr.all {
		st.advanceClock()
	}
}

func (st *State) advanceClock() {
	c := reg.freshConst("clock", SInt)
	st.assume(Cmp(">=", c, st.clock))
	st.clock = c
	if st.rec != nil {
		st.rec.clock = true
	}
}

func (x *Exec) loopEnv(st *State, f *Frame, lp int) *Env {
	env := x.env0.derive(st)
	env.frame = f
	li := x.eng.loops(f.fn)
	hdr := li.hdrOf[lp]
	// the visited set of the (single) map iteration of this loop: visited(k)
	for v, val := range f.vals {
		if rv, ok := val.(RangeV); ok {
			rng := v.(*ssa.Range)
			for _, r := range *rng.Referrers() {
				if nx, ok := r.(*ssa.Next); ok && li.bodies[lp][nx.Block()] {
					env.visited = rv.Visited
				}
			}
		}
	}
	// $i@k of every loop whose header has been entered
	for k, h := range li.hdrOf {
		for _, in := range h.Instrs {
			phi, ok := in.(*ssa.Phi)
			if !ok {
				break
			}
			if v, ok := f.vals[phi]; ok && phi.Comment == "rangeindex" {
				env.vars[fmt.Sprintf("$i@%d", k)] = TV{Sc{Add(v.(Sc).T, IntLit(1))}, types.Typ[types.Int]}
			}
		}
	}
	// an explicit counting loop (for i := c; ...; i++): $i is its counter — the number of elements already handled,
	// as the range index + 1 is for a range loop
	if cp, _ := countingPhi(li, lp); cp != nil {
		if v, ok := f.vals[cp]; ok {
			env.vars["$i"] = TV{v, types.Typ[types.Int]}
			env.vars[fmt.Sprintf("$i@%d", lp)] = env.vars["$i"]
		}
	}
	for _, in := range hdr.Instrs {
		phi, ok := in.(*ssa.Phi)
		if !ok {
			break
		}
		v, ok := f.vals[phi]
		if !ok {
			continue
		}
		if phi.Comment == "rangeindex" {
			env.vars["$i"] = TV{Sc{Add(v.(Sc).T, IntLit(1))}, types.Typ[types.Int]}
			env.vars[fmt.Sprintf("$i@%d", lp)] = env.vars["$i"]
		} else if phi.Comment != "" {
			env.vars[phi.Comment] = TV{v, phi.Type()}
			x.eng.noteLocalUse(f.fn, phi.Comment, phi.Type())
		}
	}
	return env
}

func (x *Exec) loopInvs(f *Frame, lp int) []*Clause {
	c := x.eng.contractFor(f.fn)
	if c == nil {
		return nil
	}
	var out []*Clause
	for _, cl := range c.Clauses {
		if cl.Kind == "invariant" && cl.Loop == lp {
			out = append(out, cl)
		}
	}
	return out
}

func (x *Exec) checkInvariants(st *State, f *Frame, lp int, kind string) {
	if x.dry != nil {
		return
	}
	env := x.loopEnv(st, f, lp)
	for k, cl := range x.loopInvs(f, lp) {
		g, msg := x.tryInv(env, cl)
		if msg != "" {
			// the invariant talks about variables this loop no longer has: it cannot be established
			cl = &Clause{Kind: cl.Kind, Name: cl.Name, Props: cl.Props, Loop: cl.Loop, Text: cl.Text + "   [cannot be evaluated on this code: " + msg + "]"}
			g = TFalse
		}
		name := cl.Name
		if name == "" {
			name = fmt.Sprintf("%d", k+1)
		}
		x.emit(st, kind, fmt.Sprintf("loop%d.%s", lp, name), cl.Text, cl.Props, g)
	}
}

// countingPhi: the header phi of an explicit counting loop — integer, no range index among the header phis, entered
// with a constant and advanced by exactly +1 on every back edge; (nil, 0) if there is none or more than one.
func countingPhi(li *loopInfo, lp int) (*ssa.Phi, int64) {
	hdr := li.hdrOf[lp]
	var found *ssa.Phi
	var init int64
	for _, in := range hdr.Instrs {
		phi, ok := in.(*ssa.Phi)
		if !ok {
			break
		}
		if phi.Comment == "rangeindex" {
			return nil, 0
		}
		if b, ok := phi.Type().Underlying().(*types.Basic); !ok || b.Info()&types.IsInteger == 0 {
			continue
		}
		okAll, haveInit := true, false
		var c0 int64
		for k, e := range phi.Edges {
			if li.bodies[lp][hdr.Preds[k]] {
				inc, ok := e.(*ssa.BinOp)
				one, ok2 := (func() (*ssa.Const, bool) {
					if !ok {
						return nil, false
					}
					c, ok := inc.Y.(*ssa.Const)
					return c, ok
				})()
				if !ok || !ok2 || inc.Op != token.ADD || inc.X != ssa.Value(phi) || one.Value == nil || one.Int64() != 1 {
					okAll = false
				}
			} else {
				c, ok := e.(*ssa.Const)
				if !ok || c.Value == nil {
					okAll = false
				} else {
					c0, haveInit = c.Int64(), true
				}
			}
		}
		if okAll && haveInit {
			if found != nil {
				return nil, 0
			}
			found, init = phi, c0
		}
	}
	return found, init
}

func (x *Exec) assumeInvariants(st *State, f *Frame, lp int) {
	env := x.loopEnv(st, f, lp)
	// free invariant of range-index loops: -1 <= idx
	li := x.eng.loops(f.fn)
	if cp, c0 := countingPhi(li, lp); cp != nil {
		if v, ok := f.vals[cp]; ok {
			st.assume(Cmp(">=", v.(Sc).T, IntLit(c0))) // starts at c0 and only ever grows by one
		}
	}
	for _, in := range li.hdrOf[lp].Instrs {
		phi, ok := in.(*ssa.Phi)
		if !ok {
			break
		}
		if phi.Comment == "rangeindex" {
			st.assume(Cmp(">=", f.vals[phi].(Sc).T, IntLit(-1)))
			// idx < len, where len is the loop-invariant bound of the range loop
			for _, in2 := range li.hdrOf[lp].Instrs {
				if b, ok := in2.(*ssa.BinOp); ok && b.Op == token.LSS {
					if inc, ok := b.X.(*ssa.BinOp); ok && inc.X == phi {
						if bi, ok := b.Y.(ssa.Instruction); ok && li.bodies[lp][bi.Block()] {
							continue
						}
						if lv, ok := f.vals[b.Y]; ok {
							st.assume(Cmp("<", f.vals[phi].(Sc).T, lv.(Sc).T))
						} else if c, ok := b.Y.(*ssa.Const); ok {
							st.assume(Cmp("<", f.vals[phi].(Sc).T, constVal(c).(Sc).T))
						}
					}
				}
			}
		}
	}
	for _, cl := range x.loopInvs(f, lp) {
		if g, msg := x.tryInv(env, cl); msg == "" {
			st.assume(g)
		}
	}
}

// tryInv evaluates a loop invariant; a contract error (e.g. a local variable that no longer exists)
// is returned as a message instead of making the whole function undecided.
func (x *Exec) tryInv(env *Env, cl *Clause) (g Term, msg string) {
	defer func() {
		if r := recover(); r != nil {
			if se, ok := r.(specError); ok {
				g, msg = TFalse, se.msg
				return
			}
			panic(r)
		}
	}()
	return env.evalBool(cl.E), ""
}

// ---------------------------------------------------------------------------
// havoc-all

func (st *State) havocAll(why string) { st.havocAllKeeping(why, st.privRefs) }

// havocAllKeeping: everything reachable by other code is arbitrary afterwards; the private cells in keep retain
// their contents (linked lazily, when a family is next used: see State.heap).
func (st *State) havocAllKeeping(why string, keep []Term) {
	pre := map[string]*HeapVer{}
	for k, v := range st.preHavoc {
		pre[k] = v // families not touched since the previous havoc: their private rows are still those
	}
	for k, v := range st.heaps {
		pre[k] = v
	}
	st.preHavoc = pre
	st.keepRefs = append([]Term(nil), keep...)
	st.epochN++
	st.epoch = reg.fresh(fmt.Sprintf("e%d", st.epochN))
	// after an unknown call nothing about the heap is retained
	if st.rec != nil {
		for _, h := range st.heaps {
			st.rec.written[h.Fam] = h
		}
		st.rec.all = true
	}
	st.heaps = map[string]*HeapVer{}
	st.epochAlloc = st.alloc
	st.advanceClock()
	st.notes = append(st.notes, "havoc-all: "+why)
}

// copySlice models s[lo:hi] with lo != 0 as a fresh array holding a copy (aliasing with the
// original is lost; recorded as an assumption).
func (x *Exec) copySlice(st *State, b SliceV, lo, n Term) Val {
	x.noteLib("reslicing s[lo:hi] with lo != 0 is modelled as a copy (writes through the reslice are not seen through s)")
	r := st.newRef("reslice")
	for _, l := range leavesOf(b.Elem) {
		fam := "E|" + canon(b.Elem) + "|" + l.Path
		dims := []Sort{SInt, SInt}
		h := st.heap(fam, dims, l.Sort)
		st.recWriteH(h, r)
		row := reg.fresh("row")
		reg.declare(row, fmt.Sprintf("(declare-const %s (Array Int %s))", row, l.Sort))
		q := reg.fresh("q")
		st.asserts = append(st.asserts,
			fmt.Sprintf("(forall ((%s Int)) (! (=> (and (<= 0 %s) (< %s %s)) (= (select %s %s) (select (select %s %s) (+ %s %s)))) :pattern ((select %s %s))))",
				q, q, q, n.S, row, q, h.Name, b.Arr.S, lo.S, q, row, q))
		nh := newHeapConst(fam, dims, l.Sort, "h")
		st.asserts = append(st.asserts, fmt.Sprintf("(= %s (store %s %s %s))", nh.Name, h.Name, r.S, row))
		st.heaps[fam] = nh
	}
	return SliceV{r, IntLit(0), n, b.Elem}
}

var boxedLeaves sync.Map

var kSymRe = regexp.MustCompile(`\bk(\d+)`)

// classifyIdx: "fresh" if the index is a reference allocated inside the loop-body dry run,
// "stable" if it mentions only symbols that existed before the loop, else "unstable".
func classifyIdx(t Term, c0 int, dr *dryRun) string {
	if dr.allocd[t.S] {
		return "fresh"
	}
	for _, m := range kSymRe.FindAllStringSubmatch(t.S, -1) {
		n, _ := strconv.Atoi(m[1])
		if n > c0 {
			return "unstable"
		}
	}
	return "stable"
}

func famsSorted(m map[string]*HeapVer) []string {
	var out []string
	for k := range m {
		out = append(out, k)
	}
	sort.Strings(out)
	return out
}

// zeroGhost: the ghost fields of a freshly allocated object are zero ("" / 0 / false).
func (x *Exec) zeroGhost(st *State, r Term) {
	for _, g := range x.eng.ghostNames() {
		srt, _ := x.eng.ghostSort(g)
		var z Term
		switch srt {
		case SInt:
			z = IntLit(0)
		case SBool:
			z = TFalse
		default:
			z = StrLit("")
		}
		st.store("X|"+g, []Sort{SInt}, srt, []Term{r}, z)
	}
}

// implementsTerm: whether the dynamic type (tag) implements the interface — an uninterpreted predicate of the tag,
// so that a contract can state it (builtin implements(x, "pkg.Iface")).
func implementsTerm(tag Term, iface types.Type) Term {
	return reg.uf("impl"+mangle(types.TypeString(iface, nil)), SBool, tag)
}
