package main

import (
	"regexp"
	"encoding/json"
	"fmt"
	"net/textproto"
	"go/constant"
	"go/ast"
	"go/token"
	"go/types"
	"os"
	"path/filepath"
	"sort"
	"strings"
	"sync"

	"golang.org/x/tools/go/packages"
	"golang.org/x/tools/go/ssa"
	"golang.org/x/tools/go/ssa/ssautil"
)

const modPrefix = "github.com/buzzfeed/sso/"

type Engine struct {
	unbound []string // contracts in /repo whose function is gone
	// helpers that could not be inlined (outside the modelled subset): their calls are abstracted to unknown calls
	inlineFailed map[*ssa.Function]string
	repo    string
	prog    *ssa.Program
	pkgs    []*packages.Package
	allPkgs map[string]*packages.Package
	db      *SpecDB
	mu      sync.Mutex
	loopC   map[*ssa.Function]*loopInfo
	sites   map[*ssa.Function]map[*ssa.CallCommon]int
	fnCon   map[*ssa.Function]*Contract
	ifCon   map[string]*Contract
	libCon  map[string]*Contract
	dynCon  map[string]*Contract
	fset    *token.FileSet
	hookErr []string
	files   map[string]string // contract file -> package path
	sentinels map[*ssa.Global]int
	litMaps   map[*ssa.Global][][2]string
	litSlices map[*ssa.Global][]string
	litStrs   map[*ssa.Global]string // string variables assigned one constant in init and only ever read
	lemmas    []*Contract
	axiomNames []string
	fnVals     map[*ssa.Function]*ClosV
	ifMeth     map[string]*types.Func
	ghosts     []string
}

func (e *Engine) ifaceMethod(key string) *types.Func { return e.ifMeth[key] }

func loadEngine(repo string, specDir string, patterns []string) (*Engine, error) {
	e := &Engine{repo: repo, loopC: map[*ssa.Function]*loopInfo{}, sites: map[*ssa.Function]map[*ssa.CallCommon]int{},
		fnCon: map[*ssa.Function]*Contract{}, ifCon: map[string]*Contract{}, libCon: map[string]*Contract{}, dynCon: map[string]*Contract{},
		allPkgs: map[string]*packages.Package{}, files: map[string]string{}}
	cfg := &packages.Config{Mode: packages.LoadAllSyntax, Dir: repo, BuildFlags: []string{"-tags=verif"},
		Env: append(os.Environ(), "GOFLAGS=-mod=mod", "GOPROXY=off", "GOSUMDB=off", "GOTOOLCHAIN=local")}
	pkgs, err := packages.Load(cfg, patterns...)
	if err != nil {
		return nil, err
	}
	var errs []string
	packages.Visit(pkgs, nil, func(p *packages.Package) {
		e.allPkgs[p.PkgPath] = p
		if strings.HasPrefix(p.PkgPath, modPrefix) {
			for _, er := range p.Errors {
				errs = append(errs, er.Error())
			}
		}
	})
	if len(errs) > 0 {
		return nil, fmt.Errorf("package errors: %s", strings.Join(errs, "; "))
	}
	e.pkgs = pkgs
	prog, _ := ssautil.AllPackages(pkgs, ssa.GlobalDebug) // DebugRef instructions name single-assignment locals for contracts
	e.prog = prog
	for _, p := range prog.AllPackages() {
		if strings.HasPrefix(p.Pkg.Path(), modPrefix) {
			p.Build()
		}
	}
	if len(pkgs) > 0 {
		e.fset = pkgs[0].Fset
	}
	e.db = newSpecDB()
	// library specs
	specs, _ := filepath.Glob(filepath.Join(specDir, "*.spec"))
	sort.Strings(specs)
	for _, f := range specs {
		b, err := os.ReadFile(f)
		if err != nil {
			return nil, err
		}
		e.db.parseSpecText(filepath.Base(f), "", strings.Split(string(b), "\n"), true)
	}
	// in-repo contract files
	packages.Visit(pkgs, nil, func(p *packages.Package) {
		if !strings.HasPrefix(p.PkgPath, modPrefix) {
			return
		}
		for i, f := range p.Syntax {
			name := p.CompiledGoFiles[i]
			if !strings.HasSuffix(name, "_verif.go") {
				continue
			}
			// hooks/comment-only: the guarded file must not declare anything
			for _, d := range f.Decls {
				if gd, ok := d.(*ast.GenDecl); ok && gd.Tok == token.IMPORT {
					continue
				}
				e.hookErr = append(e.hookErr, fmt.Sprintf("%s contains a declaration", name))
			}
			b, err := os.ReadFile(name)
			if err != nil {
				continue
			}
			rel, _ := filepath.Rel(repo, name)
			e.files[rel] = p.PkgPath
			e.db.parseSpecText(rel, p.PkgPath, strings.Split(string(b), "\n"), false)
		}
	})
	e.bind()
	e.scanGlobals()
	theEngine = e
	e.registerAxioms()
	// ghost fields of reference type (the response header map) hold references to allocated objects, like real fields
	for _, g := range e.ghostNames() {
		if _, gt := e.ghostSort(g); gt != nil {
			switch gt.Underlying().(type) {
			case *types.Map, *types.Pointer:
				refFams.Store("X|"+g, true)
			}
		}
	}
	return e, nil
}

var theEngine *Engine

// scanGlobals finds package-level error sentinels: interface-typed globals that
// are assigned exactly once, in the package initialiser, from errors.New /
// fmt.Errorf, and never stored to elsewhere (obligation globals/immutable).
func (e *Engine) scanGlobals() {
	e.sentinels = map[*ssa.Global]int{}
	stores := map[*ssa.Global]int{}
	initFrom := map[*ssa.Global]string{}
	for fn := range ssautil.AllFunctions(e.prog) {
		if !strings.HasPrefix(fnPkgPath(fn), modPrefix) {
			continue
		}
		for _, b := range fn.Blocks {
			for _, in := range b.Instrs {
				st, ok := in.(*ssa.Store)
				if !ok {
					continue
				}
				g, ok := st.Addr.(*ssa.Global)
				if !ok {
					continue
				}
				stores[g]++
				if fn.Name() == "init" && fn.Synthetic != "" {
					if c, ok := st.Val.(*ssa.Call); ok {
						if sc := c.Call.StaticCallee(); sc != nil {
							initFrom[g] = sc.String()
						}
					}
				}
			}
		}
	}
	e.litMaps = map[*ssa.Global][][2]string{}
	e.litSlices = map[*ssa.Global][]string{}
	// package-level map / []string literals with constant contents, assigned once in init and never
	// written through elsewhere (obligation globals/immutable, checked syntactically here)
	mutated := map[*ssa.Global]bool{}
	for fn := range ssautil.AllFunctions(e.prog) {
		if !strings.HasPrefix(fnPkgPath(fn), modPrefix) {
			continue
		}
		isInit := fn.Name() == "init" && fn.Synthetic != ""
		for _, b := range fn.Blocks {
			for _, in := range b.Instrs {
				var target ssa.Value
				switch x := in.(type) {
				case *ssa.MapUpdate:
					target = x.Map
				case *ssa.Store:
					if ia, ok := x.Addr.(*ssa.IndexAddr); ok {
						target = ia.X
					}
				case *ssa.Call:
					if bi, ok := x.Call.Value.(*ssa.Builtin); ok && bi.Name() == "delete" {
						target = x.Call.Args[0]
					}
				}
				if target == nil || isInit {
					continue
				}
				if u, ok := target.(*ssa.UnOp); ok {
					if g, ok := u.X.(*ssa.Global); ok {
						mutated[g] = true
					}
				}
			}
		}
		if !isInit {
			continue
		}
		for _, b := range fn.Blocks {
			for _, in := range b.Instrs {
				st, ok := in.(*ssa.Store)
				if !ok {
					continue
				}
				g, ok := st.Addr.(*ssa.Global)
				if !ok {
					continue
				}
				switch v := st.Val.(type) {
				case *ssa.Const:
					if v.Value != nil && v.Value.Kind() == constant.String {
						if e.litStrs == nil {
							e.litStrs = map[*ssa.Global]string{}
						}
						e.litStrs[g] = constant.StringVal(v.Value)
					}
				case *ssa.MakeMap:
					var kvs [][2]string
					okAll := true
					for _, r := range *v.Referrers() {
						switch mu := r.(type) {
						case *ssa.MapUpdate:
							kc, ok1 := mu.Key.(*ssa.Const)
							vc, ok2 := mu.Value.(*ssa.Const)
							if !ok1 || !ok2 || kc.Value == nil || vc.Value == nil || kc.Value.Kind() != constant.String || vc.Value.Kind() != constant.String {
								okAll = false
								continue
							}
							kvs = append(kvs, [2]string{constant.StringVal(kc.Value), constant.StringVal(vc.Value)})
						case *ssa.Store, *ssa.DebugRef:
						default:
							okAll = false
						}
					}
					if okAll {
						e.litMaps[g] = kvs
					}
				case *ssa.Slice:
					al, ok := v.X.(*ssa.Alloc)
					if !ok || v.Low != nil || v.High != nil {
						continue
					}
					at, ok := al.Type().Underlying().(*types.Pointer).Elem().Underlying().(*types.Array)
					if !ok {
						continue
					}
					if b, ok := at.Elem().Underlying().(*types.Basic); !ok || b.Kind() != types.String {
						continue
					}
					lits := make([]string, at.Len())
					okAll := true
					n := 0
					for _, r := range *al.Referrers() {
						ia, ok := r.(*ssa.IndexAddr)
						if !ok {
							continue
						}
						ic, ok := ia.Index.(*ssa.Const)
						if !ok {
							okAll = false
							continue
						}
						idx, _ := constant.Int64Val(ic.Value)
						for _, r2 := range *ia.Referrers() {
							if s2, ok := r2.(*ssa.Store); ok {
								c, ok := s2.Val.(*ssa.Const)
								if !ok || c.Value == nil || c.Value.Kind() != constant.String {
									okAll = false
									continue
								}
								lits[idx] = constant.StringVal(c.Value)
								n++
							}
						}
					}
					if okAll && int64(n) == at.Len() {
						e.litSlices[g] = lits
					}
				}
			}
		}
	}
	for g := range e.litMaps {
		if stores[g] != 1 || mutated[g] {
			delete(e.litMaps, g)
		}
	}
	for g := range e.litSlices {
		if stores[g] != 1 || mutated[g] {
			delete(e.litSlices, g)
		}
	}
	// a string variable is a constant if its only store is the one in init and every other use is a load
	for g := range e.litStrs {
		okG := stores[g] == 1
		for fn := range ssautil.AllFunctions(e.prog) {
			if !okG || !strings.HasPrefix(fnPkgPath(fn), modPrefix) {
				continue
			}
			for _, b := range fn.Blocks {
				for _, in := range b.Instrs {
					for _, op := range in.Operands(nil) {
						if *op != ssa.Value(g) {
							continue
						}
						switch u := in.(type) {
						case *ssa.UnOp:
						case *ssa.Store:
							if u.Addr != ssa.Value(g) {
								okG = false
							}
						case *ssa.DebugRef:
						default:
							okG = false // address escapes
						}
					}
				}
			}
		}
		if !okG {
			delete(e.litStrs, g)
		}
	}
	var gs []*ssa.Global
	for g, from := range initFrom {
		if stores[g] != 1 {
			continue
		}
		if _, ok := g.Type().Underlying().(*types.Pointer).Elem().Underlying().(*types.Interface); !ok {
			continue
		}
		if from == "errors.New" || from == "fmt.Errorf" {
			gs = append(gs, g)
		}
	}
	sort.Slice(gs, func(i, j int) bool { return gs[i].String() < gs[j].String() })
	for i, g := range gs {
		e.sentinels[g] = i + 1
	}
}

func (e *Engine) immutableGlobal(g *ssa.Global) (Val, bool) {
	e.mu.Lock()
	if _, ok := e.sentinels[g]; !ok && g.Pkg != nil && !strings.HasPrefix(g.Pkg.Pkg.Path(), modPrefix) && strings.HasPrefix(g.Name(), "Err") {
		if _, isIface := g.Type().Underlying().(*types.Pointer).Elem().Underlying().(*types.Interface); isIface {
			// library error variables (http.ErrNoCookie, ...): assumed never reassigned, non-nil, pairwise distinct
			e.sentinels[g] = 1000 + len(e.sentinels)
		}
	}
	e.mu.Unlock()
	if g.Pkg != nil && !strings.HasPrefix(g.Pkg.Pkg.Path(), modPrefix) {
		if _, isS := e.sentinels[g]; !isS {
			// package-level variables of library packages (base64.RawURLEncoding, ...) are never
			// reassigned by this module: each is a fixed, unknown value
			el := g.Type().Underlying().(*types.Pointer).Elem()
			var ls []Term
			for _, l := range leavesOf(el) {
				n := "glib" + mangle(g.Pkg.Pkg.Path()+"."+g.Name()+l.Path)[1:]
				reg.declare(n, fmt.Sprintf("(declare-const %s %s)", n, l.Sort))
				ls = append(ls, Term{n, l.Sort})
			}
			v, _ := unflatten(el, ls)
			return v, true
		}
	}
	if n, ok := e.sentinels[g]; ok {
		// distinct, non-nil, and different from every run-time allocated error (those have positive payloads)
		return IfaceV{reg.typeTag(types.NewPointer(types.Universe.Lookup("error").Type())), IntLit(int64(-n))}, true
	}
	return nil, false
}

func (e *Engine) loops(fn *ssa.Function) *loopInfo {
	e.mu.Lock()
	defer e.mu.Unlock()
	if l, ok := e.loopC[fn]; ok {
		return l
	}
	l := computeLoops(fn)
	e.loopC[fn] = l
	return l
}

func (e *Engine) typesPkg(path string) *types.Package {
	if p, ok := e.allPkgs[path]; ok {
		return p.Types
	}
	return nil
}

func (e *Engine) ssaPkg(path string) *ssa.Package {
	tp := e.typesPkg(path)
	if tp == nil {
		return nil
	}
	return e.prog.Package(tp)
}

// findPkg resolves a possibly abbreviated package name ("net/http", "sessions").
func (e *Engine) findPkg(name string) *packages.Package {
	if p, ok := e.allPkgs[name]; ok {
		return p
	}
	var best *packages.Package
	for path, p := range e.allPkgs {
		if strings.HasSuffix(path, "/"+name) || p.Name == name {
			if best == nil || (strings.HasPrefix(path, modPrefix) && !strings.HasPrefix(best.PkgPath, modPrefix)) || (strings.HasPrefix(path, modPrefix) == strings.HasPrefix(best.PkgPath, modPrefix) && len(path) < len(best.PkgPath)) {
				best = p
			}
		}
	}
	return best
}

// splitQual splits "net/http.Request" into package and name.
func splitQual(s string) (string, string) {
	i := strings.LastIndex(s, ".")
	if i < 0 {
		return "", s
	}
	return s[:i], s[i+1:]
}

func (e *Engine) typeByName(name string) types.Type {
	ptr := false
	if strings.HasPrefix(name, "*") {
		ptr = true
		name = name[1:]
	}
	switch name {
	case "map[string]string":
		return types.NewMap(types.Typ[types.String], types.Typ[types.String])
	case "[]string":
		return types.NewSlice(types.Typ[types.String])
	case "string":
		return types.Typ[types.String]
	case "int":
		return types.Typ[types.Int]
	case "bool":
		return types.Typ[types.Bool]
	case "error":
		return types.Universe.Lookup("error").Type()
	}
	pn, tn := splitQual(name)
	p := e.findPkg(pn)
	if p == nil {
		return nil
	}
	o := p.Types.Scope().Lookup(tn)
	if o == nil && p.TypesInfo != nil {
		// a type declared inside a function body: accepted when the name is unique in the package
		var found []types.Object
		for _, d := range p.TypesInfo.Defs {
			if tnm, ok := d.(*types.TypeName); ok && tnm.Name() == tn && tnm.Parent() != p.Types.Scope() {
				found = append(found, tnm)
			}
		}
		if len(found) == 1 {
			o = found[0]
		}
	}
	if o == nil {
		return nil
	}
	if ptr {
		return types.NewPointer(o.Type())
	}
	return o.Type()
}

func (e *Engine) typeByCanon(c string) types.Type {
	switch c {
	case "string":
		return types.Typ[types.String]
	case "int":
		return types.Typ[types.Int]
	case "bool":
		return types.Typ[types.Bool]
	case "ptr":
		return types.NewPointer(types.Typ[types.Int])
	case "map", "chan", "func":
		return types.Typ[types.Int]
	case "iface":
		return types.Universe.Lookup("error").Type()
	case "slice":
		return types.NewSlice(types.Typ[types.Int])
	}
	pn, tn := splitQual(c)
	if p, ok := e.allPkgs[pn]; ok {
		if o := p.Types.Scope().Lookup(tn); o != nil {
			return o.Type()
		}
	}
	return nil
}

func (e *Engine) global(v *types.Var) *ssa.Global {
	if v.Pkg() == nil {
		return nil
	}
	p := e.prog.Package(v.Pkg())
	if p == nil {
		return nil
	}
	return p.Var(v.Name())
}

func (e *Engine) globalType(qual string) types.Type {
	pn, n := splitQual(qual)
	if p, ok := e.allPkgs[pn]; ok {
		if o := p.Types.Scope().Lookup(n); o != nil {
			return o.Type()
		}
	}
	return nil
}

func (e *Engine) typeSpec(t types.Type) *TypeSpec {
	n, ok := t.(*types.Named)
	if !ok || n.Obj().Pkg() == nil {
		return nil
	}
	return e.db.Types[n.Obj().Pkg().Path()+"."+n.Obj().Name()]
}

func (e *Engine) ghostSort(name string) (Sort, types.Type) {
	for _, ts := range e.db.Types {
		if ty, ok := ts.Ghost[name]; ok {
			s, t := specSort(ty)
			return s, t
		}
	}
	if f, ok := e.db.Fns["ghost:"+name]; ok {
		return specSort(f.Ret)
	}
	return SInt, types.Typ[types.Int]
}

func (e *Engine) materialiseMap(st *State, prefix string) {}

func (e *Engine) contractFor(fn *ssa.Function) *Contract {
	if c, ok := e.fnCon[fn]; ok {
		return c
	}
	if c, ok := e.libCon[fn.String()]; ok {
		return c
	}
	return nil
}

func (e *Engine) ifaceContract(m *types.Func) *Contract {
	return e.ifCon[m.FullName()]
}

func (e *Engine) dynContract(root *ssa.Function, name string) *Contract {
	return e.dynCon[root.String()+"|"+name]
}

// bind attaches parsed contracts to SSA functions / interface methods.
func (e *Engine) bind() {
	for _, c := range e.db.Contracts {
		if c.Kind == "interface" {
			pkg, tn := c.Pkg, c.RecvType
			if strings.ContainsAny(tn, "./") {
				pn, n := splitQual(tn)
				p := e.findPkg(pn)
				if p == nil {
					e.db.Errors = append(e.db.Errors, fmt.Sprintf("%s:%d: unknown package in %s", c.File, c.Line, tn))
					continue
				}
				pkg, tn = p.PkgPath, n
			}
			if pkg == "" && tn == "error" {
				c.Key = "(error)." + c.FnName
				e.ifCon[c.Key] = c
				continue
			}
			tp := e.typesPkg(pkg)
			if tp == nil || tp.Scope().Lookup(tn) == nil {
				e.db.Errors = append(e.db.Errors, fmt.Sprintf("%s:%d: unknown interface %s.%s", c.File, c.Line, pkg, tn))
				continue
			}
			it, ok := tp.Scope().Lookup(tn).Type().Underlying().(*types.Interface)
			if !ok {
				e.db.Errors = append(e.db.Errors, fmt.Sprintf("%s:%d: %s is not an interface", c.File, c.Line, tn))
				continue
			}
			found := false
			for i := 0; i < it.NumMethods(); i++ {
				if it.Method(i).Name() == c.FnName {
					c.Key = it.Method(i).FullName()
					e.ifCon[c.Key] = c
					if e.ifMeth == nil {
						e.ifMeth = map[string]*types.Func{}
					}
					e.ifMeth[c.Key] = it.Method(i)
					found = true
					if it.Method(i).Type().(*types.Signature).Params().Len() != len(c.Params) {
						e.db.Errors = append(e.db.Errors, fmt.Sprintf("%s:%d: arity mismatch for %s", c.File, c.Line, c.Key))
					}
				}
			}
			if !found {
				e.db.Errors = append(e.db.Errors, fmt.Sprintf("%s:%d: no method %s in %s", c.File, c.Line, c.FnName, tn))
			}
			continue
		}
		if c.Kind == "lemmafn" {
			e.lemmas = append(e.lemmas, c)
			continue
		}
		// functions
		pkg, fname, rt := c.Pkg, c.FnName, c.RecvType
		if c.Lib {
			if rt != "" {
				pn, n := splitQual(rt)
				if p := e.findPkg(pn); p != nil {
					pkg, rt = p.PkgPath, n
				} else {
					e.db.Errors = append(e.db.Errors, fmt.Sprintf("%s:%d: unknown package %q", c.File, c.Line, pn))
					continue
				}
			} else {
				pn, n := splitQual(fname)
				if p := e.findPkg(pn); p != nil {
					pkg, fname = p.PkgPath, n
				} else {
					e.db.Errors = append(e.db.Errors, fmt.Sprintf("%s:%d: unknown package %q", c.File, c.Line, pn))
					continue
				}
			}
		}
		fn := e.lookupFn(pkg, rt, c.RecvPtr, fname)
		if fn == nil {
			if c.Lib {
				e.db.Errors = append(e.db.Errors, fmt.Sprintf("%s:%d: no function %s %s.%s", c.File, c.Line, pkg, rt, fname))
				continue
			}
			// a contract in /repo whose function no longer exists: not an error of the specification — the
			// obligations it used to give rise to are reported as failed by absence (see cmdCheck)
			e.unbound = append(e.unbound, fmt.Sprintf("%s:%d: %s %s.%s", c.File, c.Line, pkg, rt, fname))
			continue
		}
		np := fn.Signature.Params().Len()
		if np != len(c.Params) {
			e.db.Errors = append(e.db.Errors, fmt.Sprintf("%s:%d: %s has %d parameters, contract names %d", c.File, c.Line, fn, np, len(c.Params)))
			continue
		}
		c.Key = fn.String()
		if _, dup := e.fnCon[fn]; dup {
			e.db.Errors = append(e.db.Errors, fmt.Sprintf("%s:%d: duplicate contract for %s", c.File, c.Line, fn))
		}
		e.fnCon[fn] = c
	}
}

func (e *Engine) lookupFn(pkg, recvType string, recvPtr bool, name string) *ssa.Function {
	sp := e.ssaPkg(pkg)
	if sp == nil {
		return nil
	}
	parts := strings.Split(name, "$")
	base := parts[0]
	var fn *ssa.Function
	if recvType == "" {
		fn = sp.Func(base)
	} else {
		o := sp.Pkg.Scope().Lookup(recvType)
		if o == nil {
			return nil
		}
		var t types.Type = o.Type()
		if recvPtr {
			t = types.NewPointer(t)
		}
		ms := e.prog.MethodSets.MethodSet(t)
		for i := 0; i < ms.Len(); i++ {
			if ms.At(i).Obj().Name() == base {
				fn = e.prog.MethodValue(ms.At(i))
			}
		}
	}
	if fn == nil {
		return nil
	}
	for _, suf := range parts[1:] {
		want := fn.Name() + "$" + suf
		var next *ssa.Function
		for _, an := range fn.AnonFuncs {
			if an.Name() == want {
				next = an
			}
		}
		if next == nil {
			return nil
		}
		fn = next
	}
	return fn
}

// fnByDisplay finds a function by the short display name used in property configs,
// e.g. "pkg/validators.RunValidators", "(*auth/circuit.Breaker).Call", "proxy.(*OAuthProxy).Proxy".
func (e *Engine) fnByShort(short string) *ssa.Function {
	for fn := range ssautil.AllFunctions(e.prog) {
		if !strings.HasPrefix(fnPkgPath(fn), modPrefix) {
			continue
		}
		if shortFn(fn) == short {
			return fn
		}
	}
	return nil
}

// registerAxioms evaluates prelude axioms to SMT and registers them, triggered by the
// uninterpreted spec functions they mention.
func (e *Engine) registerAxioms() {
	for _, a := range e.db.Axioms {
		func() {
			defer func() {
				if r := recover(); r != nil {
					e.db.Errors = append(e.db.Errors, fmt.Sprintf("axiom %s: %v", a.Name, r))
				}
			}()
			st := &State{heaps: map[string]*HeapVer{}, epoch: "0"}
			x := &Exec{eng: e}
			env := &Env{x: x, st: st, vars: map[string]TV{}, lets: map[string]*Expr{}, pattern: a.Pat}
			t := env.evalBool(a.E)
			var trig []string
			for _, m := range symRe.FindAllString(t.S, -1) {
				if strings.HasPrefix(m, "sf_") || strings.HasPrefix(m, "lib_") {
					trig = append(trig, m)
				}
			}
			reg.addAxiom(a.Name, trig, "(assert "+t.S+")")
			e.axiomNames = append(e.axiomNames, a.Name+": "+strings.TrimSpace(a.Text))
		}()
	}
}

// findPkgFrom resolves a package name as seen from pkg: its imports first, then any loaded package.
func (e *Engine) findPkgFrom(from *types.Package, name string) *types.Package {
	if from != nil {
		for _, imp := range from.Imports() {
			if imp.Name() == name {
				return imp
			}
		}
	}
	if p := e.findPkg(name); p != nil {
		return p.Types
	}
	return nil
}

// fnVal is the (unique) value of a package-level function used as a function value.
func (e *Engine) fnVal(fn *ssa.Function) *ClosV {
	e.mu.Lock()
	defer e.mu.Unlock()
	if e.fnVals == nil {
		e.fnVals = map[*ssa.Function]*ClosV{}
	}
	if c, ok := e.fnVals[fn]; ok {
		return c
	}
	c := &ClosV{Fn: fn}
	e.fnVals[fn] = c
	return c
}

// literalGlobal: the value of an immutable package-level map[string]string / []string literal together
// with the facts describing its contents in the given state.
func (e *Engine) literalGlobal(st *State, g *ssa.Global) (Val, bool) {
	name := "gl" + mangle(g.Pkg.Pkg.Path()+"."+g.Name())[1:]
	if s, ok := e.litStrs[g]; ok {
		return Sc{StrLit(s)}, true
	}
	if kvs, ok := e.litMaps[g]; ok {
		reg.declare(name, fmt.Sprintf("(declare-const %s Int)", name))
		r := Term{name, SInt}
		st.assume(Cmp(">", r, IntLit(0)))
		st.assume(Term{fmt.Sprintf("(select %s %s)", st.alloc0.Name, r.S), SBool})
		strT := types.Typ[types.String]
		fam := mapFam(strT, strT)
		dom := st.heap("MD|"+fam, []Sort{SInt, SStr}, SBool)
		val := st.heap("MV|"+fam+"|", []Sort{SInt, SStr}, SStr)
		var in []string
		for _, kv := range kvs {
			// the canonical header form of a literal key is computed by the real function
			st.assume(Eq(reg.uf("sf_canonhdr", SStr, StrLit(kv[0])), StrLit(textproto.CanonicalMIMEHeaderKey(kv[0]))))
			in = append(in, fmt.Sprintf("(= k %s)", StrLit(kv[0]).S))
			st.asserts = append(st.asserts, fmt.Sprintf("(= (select (select %s %s) %s) %s)", val.Name, r.S, StrLit(kv[0]).S, StrLit(kv[1]).S))
		}
		body := "false"
		if len(in) == 1 {
			body = in[0]
		} else if len(in) > 1 {
			body = "(or " + strings.Join(in, " ") + ")"
		}
		st.asserts = append(st.asserts, fmt.Sprintf("(forall ((k String)) (! (= (select (select %s %s) k) %s) :pattern ((select (select %s %s) k))))", dom.Name, r.S, body, dom.Name, r.S))
		return Sc{r}, true
	}
	if lits, ok := e.litSlices[g]; ok {
		reg.declare(name, fmt.Sprintf("(declare-const %s Int)", name))
		r := Term{name, SInt}
		st.assume(Cmp(">", r, IntLit(0)))
		st.assume(Term{fmt.Sprintf("(select %s %s)", st.alloc0.Name, r.S), SBool})
		el := st.heap("E|string|", []Sort{SInt, SInt}, SStr)
		for i, l := range lits {
			st.asserts = append(st.asserts, fmt.Sprintf("(= (select (select %s %s) %d) %s)", el.Name, r.S, i, StrLit(l).S))
		}
		return SliceV{r, IntLit(0), IntLit(int64(len(lits))), types.Typ[types.String]}, true
	}
	return nil, false
}

// ghostNames lists every declared ghost field.
func (e *Engine) ghostNames() []string {
	e.mu.Lock()
	defer e.mu.Unlock()
	if e.ghosts != nil {
		return e.ghosts
	}
	seen := map[string]bool{}
	for k := range e.db.Fns {
		if strings.HasPrefix(k, "ghost:") {
			seen[k[6:]] = true
		}
	}
	for _, ts := range e.db.Types {
		for g := range ts.Ghost {
			seen[g] = true
		}
	}
	for g := range seen {
		e.ghosts = append(e.ghosts, g)
	}
	sort.Strings(e.ghosts)
	if e.ghosts == nil {
		e.ghosts = []string{}
	}
	return e.ghosts
}

// ---------------------------------------------------------------------------
// Locals named by contracts. On -regen-expected the (function, name, type) of every local variable a contract
// clause resolved is recorded in spec/expected/locals.json; when a later tree no longer has a local of that name,
// renamedLocal proposes the unique local of the recorded type that the contract does not name.

var localUses sync.Map // "fn|name" -> type string (this run)

// localKind: how a local variable appears in SSA — "phi" (assigned on more than one path: loop-carried or merged),
// "cell" (addressable: an Alloc), "val" (single assignment, known through a debug reference).
func localKind(fn *ssa.Function, name string) string {
	kind := ""
	for _, b := range fn.Blocks {
		for _, in := range b.Instrs {
			switch x := in.(type) {
			case *ssa.Phi:
				if x.Comment == name {
					return "phi"
				}
			case *ssa.Alloc:
				if x.Comment == name && kind == "" {
					kind = "cell"
				}
			case *ssa.DebugRef:
				if id, ok := x.Expr.(*ast.Ident); ok && !x.IsAddr && id.Name == name && isLocalVar(x) && kind == "" {
					kind = "val"
				}
			}
		}
	}
	return kind
}

func (e *Engine) noteLocalUse(fn *ssa.Function, name string, t types.Type) {
	if t == nil || fn == nil {
		return
	}
	for _, p := range fn.Params {
		if p.Name() == name {
			return
		}
	}
	for _, p := range fn.FreeVars {
		if p.Name() == name {
			return
		}
	}
	localUses.Store(shortFn(fn)+"|"+name, localKind(fn, name)+" "+types.TypeString(t, nil))
}

func localsFile() string { return filepath.Join(verifDir(), "spec", "expected", "locals.json") }

var recordedLocals map[string]string
var recordedLocalsOnce sync.Once

func (e *Engine) renamedLocal(fn *ssa.Function, con *Contract, name string) string {
	recordedLocalsOnce.Do(func() {
		recordedLocals = map[string]string{}
		if b, err := os.ReadFile(localsFile()); err == nil {
			json.Unmarshal(b, &recordedLocals)
		}
	})
	want, ok := recordedLocals[shortFn(fn)+"|"+name]
	if !ok || con == nil {
		return ""
	}
	// local variables of this function, by name, with their types
	cands := map[string]string{}
	add := func(n string, t types.Type) {
		if n != "" && t != nil {
			cands[n] = localKind(fn, n) + " " + types.TypeString(t, nil)
		}
	}
	for _, b := range fn.Blocks {
		for _, in := range b.Instrs {
			switch x := in.(type) {
			case *ssa.Phi:
				add(x.Comment, x.Type())
			case *ssa.Alloc:
				add(x.Comment, x.Type().Underlying().(*types.Pointer).Elem())
			case *ssa.DebugRef:
				if id, ok := x.Expr.(*ast.Ident); ok && !x.IsAddr && isLocalVar(x) {
					add(id.Name, x.X.Type())
				}
			}
		}
	}
	text := con.Sig
	for _, cl := range con.Clauses {
		text += "\n" + cl.Text
	}
	var hit []string
	for n, t := range cands {
		if t != want || n == name {
			continue
		}
		if _, rec := recordedLocals[shortFn(fn)+"|"+n]; rec {
			continue // another variable the contract already names
		}
		if regexp.MustCompile(`(^|[^A-Za-z0-9_$])` + regexp.QuoteMeta(n) + `([^A-Za-z0-9_]|$)`).MatchString(text) {
			continue
		}
		isParam := false
		for _, p := range fn.Params {
			if p.Name() == n {
				isParam = true
			}
		}
		if !isParam {
			hit = append(hit, n)
		}
	}
	if len(hit) == 1 {
		return hit[0]
	}
	return ""
}

// writeLocals merges this run's local uses into spec/expected/locals.json (called on -regen-expected).
func writeLocals() {
	cur := map[string]string{}
	if b, err := os.ReadFile(localsFile()); err == nil {
		json.Unmarshal(b, &cur)
	}
	localUses.Range(func(k, v interface{}) bool {
		cur[k.(string)] = v.(string)
		return true
	})
	b, _ := json.MarshalIndent(cur, "", " ")
	os.WriteFile(localsFile(), b, 0o644)
}

// fnsOfPkg returns the source-level functions and methods (not closures, not synthetic wrappers) of
// the sso package with the given short path, in name order.
func (e *Engine) fnsOfPkg(short string) []*ssa.Function {
	var out []*ssa.Function
	for fn := range ssautil.AllFunctions(e.prog) {
		if fn.Synthetic != "" || fn.Parent() != nil || fn.Blocks == nil {
			continue
		}
		if fnPkgPath(fn) != modPrefix+"internal/"+short {
			continue
		}
		if fn.Name() == "init" {
			continue
		}
		out = append(out, fn)
	}
	sort.Slice(out, func(i, j int) bool { return out[i].String() < out[j].String() })
	return out
}
