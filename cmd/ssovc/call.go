package main

import (
	"go/constant"
	"os"
	"fmt"
	"golang.org/x/tools/go/ssa/ssautil"
	"go/types"
	"sort"
	"strings"

	"golang.org/x/tools/go/ssa"
)

func (x *Exec) noteLib(s string) {
	if x.libs == nil {
		x.libs = map[string]bool{}
	}
	x.libs[s] = true
}

func (x *Exec) evalCallOperands(st *State, f *Frame, c *ssa.CallCommon) ([]Val, Val) {
	var args []Val
	var fnv Val
	if c.IsInvoke() {
		args = append(args, x.val(st, f, c.Value))
	} else if _, ok := c.Value.(*ssa.Builtin); !ok {
		if _, ok := c.Value.(*ssa.Function); !ok {
			fnv = x.val(st, f, c.Value)
		}
	}
	for _, a := range c.Args {
		args = append(args, x.val(st, f, a))
	}
	return args, fnv
}

// callSiteName returns the anchor name of a call (method or function short name).
func callSiteName(c *ssa.CallCommon) string {
	if c.IsInvoke() {
		return c.Method.Name()
	}
	if fn := c.StaticCallee(); fn != nil {
		n := fn.Name()
		return n
	}
	// dynamic: name of the value (free variable / field / parameter)
	switch v := c.Value.(type) {
	case *ssa.Parameter:
		return v.Name()
	case *ssa.FreeVar:
		return v.Name()
	case *ssa.UnOp:
		switch a := v.X.(type) {
		case *ssa.FieldAddr:
			st := a.X.Type().Underlying().(*types.Pointer).Elem().Underlying().(*types.Struct)
			return st.Field(a.Field).Name()
		case *ssa.FreeVar:
			return a.Name()
		case *ssa.Alloc:
			return a.Comment
		}
	case *ssa.Field:
		st := v.X.Type().Underlying().(*types.Struct)
		return st.Field(v.Field).Name()
	}
	return "dyn"
}

// siteOrdinals numbers the call sites of a function statically: name -> instr -> k
func (e *Engine) siteOrdinal(fn *ssa.Function, c *ssa.CallCommon) (string, int) {
	e.mu.Lock()
	defer e.mu.Unlock()
	m, ok := e.sites[fn]
	if !ok {
		m = map[*ssa.CallCommon]int{}
		cnt := map[string]int{}
		for _, b := range fn.Blocks {
			for _, in := range b.Instrs {
				if ci, ok := in.(ssa.CallInstruction); ok {
					cc := ci.Common()
					n := callSiteName(cc)
					cnt[n]++
					m[cc] = cnt[n]
				}
			}
		}
		e.sites[fn] = m
	}
	return callSiteName(c), m[c]
}

func (x *Exec) anchorExists(name string, k int) bool {
	return true // a missing call site is handled by phantomAnchor (not called on any path)
}

func (x *Exec) anchorExistsStrict(name string, k int) bool {
	if strings.Contains(name, ":") {
		return true
	}
	name = lastComp(name)
	check := func(fn *ssa.Function) bool {
		n := 0
		for _, b := range fn.Blocks {
			for _, in := range b.Instrs {
				if ci, ok := in.(ssa.CallInstruction); ok && callSiteName(ci.Common()) == name {
					n++
				}
			}
		}
		return n >= k
	}
	if check(x.root) {
		return true
	}
	for _, an := range x.root.AnonFuncs {
		if check(an) {
			return true
		}
	}
	return false
}

func lastComp(s string) string {
	if i := strings.LastIndex(s, "."); i >= 0 {
		return s[i+1:]
	}
	return s
}

func (x *Exec) phantomAnchor(st *State, name string, k int) *Anchor {
	key := fmt.Sprintf("%s#%d", name, k)
	// find the call site to know the result types
	short := lastComp(name)
	var sig *types.Signature
	sigOwner := ""
	find := func(fn *ssa.Function) {
		n := 0
		for _, b := range fn.Blocks {
			for _, in := range b.Instrs {
				if ci, ok := in.(ssa.CallInstruction); ok && callSiteName(ci.Common()) == short {
					n++
					if n == k && sig == nil {
						sig = ci.Common().Signature()
					}
				}
			}
		}
	}
	if i := strings.Index(short, ":"); i >= 0 {
		// anchor inside an inlined callee: "<callee>:<site>"
		owner := short[:i]
		short = short[i+1:]
		for fn := range ssautil.AllFunctions(x.eng.prog) {
			if fn.Name() == owner && fnPkgPath(fn) == fnPkgPath(x.root) {
				find(fn)
			}
		}
	} else {
		find(x.root)
		for _, an := range x.root.AnonFuncs {
			find(an)
		}
	}
	if sig == nil {
		// the call no longer occurs in the function: it is "not called" on every path. Its result
		// types are taken from a function or method of that name in the same package (or any
		// interface method of that name), so that `called(@f#k)` clauses fail instead of the
		// contract becoming unattachable.
		for fn := range ssautil.AllFunctions(x.eng.prog) {
			if fn.Name() == short && fnPkgPath(fn) == fnPkgPath(x.root) && fn.Signature != nil {
				if sig == nil || fn.String() < sigOwner {
					sig, sigOwner = fn.Signature, fn.String()
				}
			}
		}
		if sig == nil {
			// a library function/method under a library contract
			for fn := range ssautil.AllFunctions(x.eng.prog) {
				if fn.Name() == short && fn.Signature != nil && x.eng.contractFor(fn) != nil {
					if sig == nil || fn.String() < sigOwner {
						sig, sigOwner = fn.Signature, fn.String()
					}
				}
			}
		}
		if sig == nil {
			for _, c := range x.eng.ifCon {
				if c.FnName == short {
					if m := x.eng.ifaceMethod(c.Key); m != nil {
						sig = m.Type().(*types.Signature)
					}
				}
			}
		}
	}
	if sig == nil {
		sfail("anchor @%s does not occur in the code", key)
	}
	a := &Anchor{Called: TFalse, Before: st.snap(), After: st.snap()}
	if sig != nil {
		if sig.Recv() != nil {
			a.Args = append(a.Args, st.freshVal(sig.Recv().Type(), "phantom_recv"))
			a.ArgT = append(a.ArgT, sig.Recv().Type())
		}
		for i := 0; i < sig.Params().Len(); i++ {
			a.Args = append(a.Args, st.freshVal(sig.Params().At(i).Type(), "phantom_arg"))
			a.ArgT = append(a.ArgT, sig.Params().At(i).Type())
		}
		a.RetT = sig.Results()
		for i := 0; i < sig.Results().Len(); i++ {
			a.Rets = append(a.Rets, st.freshVal(sig.Results().At(i).Type(), "phantom_"+short))
		}
	}
	st.anchors[key] = a
	return a
}

func (x *Exec) recordAnchor(st *State, f *Frame, c *ssa.CallCommon, args []Val, res Val, before *HeapSnap) {
	name, k := x.eng.siteOrdinal(f.fn, c)
	key := fmt.Sprintf("%s#%d", name, k)
	if f.fn != x.root {
		key = f.fn.Name() + ":" + key
	}
	a := &Anchor{Called: TTrue, Before: before, After: st.snap(), Args: args, RetT: c.Signature().Results()}
	if c.IsInvoke() {
		a.ArgT = append(a.ArgT, c.Value.Type())
	}
	for _, v := range c.Args {
		a.ArgT = append(a.ArgT, v.Type())
	}
	switch r := res.(type) {
	case nil:
	case TupleV:
		a.Rets = r.E
	default:
		a.Rets = []Val{res}
	}
	st.anchors[key] = a
}

// afterCall runs the ghost updates (`ghostat`) the root contract attaches to a call site.
func (x *Exec) afterCall(st *State, f *Frame, c *ssa.CallCommon) {
	if x.con == nil || f.fn != x.root {
		return
	}
	name, k := x.eng.siteOrdinal(f.fn, c)
	key := fmt.Sprintf("%s#%d", name, k)
	for _, cl := range x.con.Clauses {
		if cl.Kind != "ghostat" || lastComp(cl.Sink) != key {
			continue
		}
		env := x.env0.derive(st)
		env.frame = st.stack[0]
		val := env.term(cl.E)
		for _, loc := range x.targetLocs(env, cl.Mods[0]) {
			for _, fam := range x.famsFor(st, loc) {
				h := st.heaps[fam]
				st.store(fam, h.Dims, h.Elem, loc.Idx, val)
			}
		}
	}
}

func (x *Exec) bindResult(st *State, f *Frame, instr ssa.Value, res Val, isDefer bool) {
	if instr != nil && res != nil {
		f.vals[instr] = res
	}
	if !isDefer {
		f.pc++
	}
}

// call executes a call instruction (or a deferred call when isDefer).
func (x *Exec) call(st *State, f *Frame, c *ssa.CallCommon, instr ssa.Value, args []Val, fnv Val, isDefer bool) []*State {
	before := st.snap()
	// builtins
	if b, ok := c.Value.(*ssa.Builtin); ok {
		res := x.builtin(st, f, b, c, args)
		x.bindResult(st, f, instr, res, isDefer)
		return nil
	}
	sig := c.Signature()
	x.checkSinks(st, f, c, args)
	if c.IsInvoke() {
		key := c.Method.FullName()
		if res, ok := x.libInvoke(st, key, c, args); ok {
			x.recordAnchor(st, f, c, args, res, before)
		x.afterCall(st, f, c)
			x.bindResult(st, f, instr, res, isDefer)
			return nil
		}
		if con := x.eng.ifaceContract(c.Method); con != nil {
			res := x.applyContract(st, f, con, sig, args, c)
			x.recordAnchor(st, f, c, args, res, before)
		x.afterCall(st, f, c)
			x.bindResult(st, f, instr, res, isDefer)
			return nil
		}
		res := x.unknownCall(st, sig, "invoke "+key)
		x.recordAnchor(st, f, c, args, res, before)
		x.afterCall(st, f, c)
		x.bindResult(st, f, instr, res, isDefer)
		return nil
	}
	var callee *ssa.Function
	var binds []Val
	if fn := c.StaticCallee(); fn != nil {
		callee = fn
		if mc, ok := c.Value.(*ssa.MakeClosure); ok {
			for _, b := range mc.Bindings {
				binds = append(binds, x.val(st, f, b))
			}
		}
	} else if cv, ok := fnv.(*ClosV); ok {
		callee = cv.Fn
		binds = cv.Binds
	}
	if callee == nil {
		// dynamic call of an unknown function value
		res := x.dynCall(st, f, c, args, fnv)
		x.recordAnchor(st, f, c, args, res, before)
		x.afterCall(st, f, c)
		x.bindResult(st, f, instr, res, isDefer)
		return nil
	}
	// engine-level library models
	if res, ok := x.libStatic(st, f, callee, c, args); ok {
		x.recordAnchor(st, f, c, args, res, before)
		x.afterCall(st, f, c)
		x.bindResult(st, f, instr, res, isDefer)
		return nil
	}
	if con := x.eng.contractFor(callee); con != nil && callee != x.root && !(x.onlyInvariants(con)) {
		res := x.applyContract(st, f, con, callee.Signature, append(append([]Val{}, args...), binds...), c)
		x.recordAnchor(st, f, c, args, res, before)
		x.afterCall(st, f, c)
		x.bindResult(st, f, instr, res, isDefer)
		return nil
	}
	if x.canInline(st, callee) {
		nf := &Frame{fn: callee, vals: map[ssa.Value]Val{}, block: callee.Blocks[0], visited: map[*ssa.BasicBlock]bool{}, ret: instr, isDefer: isDefer, depth: f.depth + 1,
			callC: c, callArgs: args, callBefore: before}
		if len(args) != len(callee.Params) {
			bail("arity mismatch calling %s", callee)
		}
		for i, p := range callee.Params {
			nf.vals[p] = args[i]
		}
		for i, fv := range callee.FreeVars {
			if i < len(binds) {
				nf.vals[fv] = binds[i]
			}
		}
		if x.inl == nil {
			x.inl = map[string]bool{}
		}
		x.inl[shortFn(callee)] = true
		st.stack = append(st.stack, nf)
		return nil
	}
	res := x.unknownCall(st, sig, callee.String())
	x.recordAnchor(st, f, c, args, res, before)
		x.afterCall(st, f, c)
	x.bindResult(st, f, instr, res, isDefer)
	return nil
}

func (x *Exec) onlyInvariants(c *Contract) bool {
	for _, cl := range c.Clauses {
		if cl.Kind != "invariant" {
			return false
		}
	}
	return !c.Pure && !c.Trusted && !c.EffectFree && !c.HavocAll && c.PureFn == ""
}

func (x *Exec) canInline(st *State, fn *ssa.Function) bool {
	if fn.Blocks == nil {
		return false
	}
	if why, ok := x.eng.inlineFailed[fn]; ok {
		x.noteLib("helper " + shortFn(fn) + " is outside the modelled subset (" + why + "): its call is abstracted to an unknown call — everything it can reach is unknown afterwards")
		return false
	}
	if !strings.HasPrefix(fnPkgPath(fn), "github.com/buzzfeed/sso") {
		return false
	}
	if len(st.stack) > 8 {
		return false
	}
	for _, fr := range st.stack {
		if fr.fn == fn {
			return false
		}
	}
	li := x.eng.loops(fn)
	if len(li.headers) > 0 {
		// loops need invariants: only with an invariants-only contract block
		c := x.eng.contractFor(fn)
		if c == nil {
			return false
		}
	}
	if len(fn.Blocks) > 40 {
		return false
	}
	return true
}

func fnPkgPath(fn *ssa.Function) string {
	for fn.Parent() != nil {
		fn = fn.Parent()
	}
	if fn.Pkg != nil {
		return fn.Pkg.Pkg.Path()
	}
	if fn.Object() != nil && fn.Object().Pkg() != nil {
		return fn.Object().Pkg().Path()
	}
	return ""
}

// unknownCall: no contract at all — everything the callee could touch is unknown.
func (x *Exec) unknownCall(st *State, sig *types.Signature, name string) Val {
	if x.unk == nil {
		x.unk = map[string]bool{}
	}
	x.unk[name] = true
	st.havocAll("call without contract: " + name)
	return x.freshResults(st, sig, "ret_"+lastComp(name))
}

func (x *Exec) freshResults(st *State, sig *types.Signature, hint string) Val {
	return x.freshResultsOpt(st, sig, hint, true)
}

func (x *Exec) freshResultsOpt(st *State, sig *types.Signature, hint string, allocated bool) Val {
	rs := sig.Results()
	switch rs.Len() {
	case 0:
		return nil
	case 1:
		v := st.freshVal(rs.At(0).Type(), hint)
		if allocated {
			st.assumeAllocated(v)
		}
		return v
	}
	var tv TupleV
	for i := 0; i < rs.Len(); i++ {
		tv.E = append(tv.E, st.freshVal(rs.At(i).Type(), fmt.Sprintf("%s_%d", hint, i)))
	}
	if allocated {
		st.assumeAllocated(tv)
	}
	return tv
}

// dynCall: call through a function value the engine knows nothing about.
func (x *Exec) dynCall(st *State, f *Frame, c *ssa.CallCommon, args []Val, fnv Val) Val {
	name := callSiteName(c)
	if con := x.eng.dynContract(x.root, name); con != nil {
		return x.applyContract(st, f, con, c.Signature(), args, c)
	}
	if mode := x.dynMode(f, c, name); mode != "" {
		x.noteLib(fmt.Sprintf("function value %s: declared %s", name, mode))
		switch mode {
		case "pure":
			ts := []Term{fnv.(Sc).T}
			for _, a := range args {
				ts = append(ts, st.flatten(a)...)
			}
			rs := c.Signature().Results()
			if rs.Len() == 1 {
				ls := leavesOf(rs.At(0).Type())
				if len(ls) == 1 {
					v, _ := unflatten(rs.At(0).Type(), []Term{applyUF(ls[0].Sort, ts)})
					return v
				}
			}
			bail("dyn pure %s: unsupported result type", name)
		case "new":
			// a constructor-like function value: the single result is a newly allocated object
			v := x.freshResultsOpt(st, c.Signature(), "dyn_"+name, false)
			var r Term
			switch vv := v.(type) {
			case IfaceV:
				r = vv.Pay
				st.assume(Not(Eq(vv.Tag, IntLit(0))))
			case PtrV:
				if oa, ok := vv.A.(ObjAddr); ok {
					r = oa.Ref
				}
			}
			if r.S == "" {
				bail("dyn new %s: result is not a reference", name)
			}
			st.assume(Cmp(">", r, IntLit(0)))
			st.assume(Not(Term{fmt.Sprintf("(select %s %s)", st.alloc.Name, r.S), SBool}))
			n := newHeapConst("alloc", []Sort{SInt}, SBool, "al")
			st.asserts = append(st.asserts, fmt.Sprintf("(= %s (store %s %s true))", n.Name, st.alloc.Name, r.S))
			st.alloc = n
			st.localRefs = append(st.localRefs, r)
			if st.rec != nil {
				st.rec.allocd[r.S] = true
			}
			x.zeroGhost(st, r) // a new object: nothing written to it yet
			return v
		case "effectfree", "fresh":
			return x.freshResults(st, c.Signature(), "dyn_"+name)
		}
	}
	// ghost expressions the root contract says this callee preserves
	var keep []*Clause
	var before []Term
	if x.con != nil {
		for _, cl := range x.con.Clauses {
			if cl.Kind == "preserves" && lastComp(cl.Sink) == name {
				env := x.env0.derive(st)
				env.frame = st.stack[0]
				keep = append(keep, cl)
				before = append(before, env.term(cl.E))
			}
		}
	}
	res := x.unknownCall(st, c.Signature(), "dynamic "+name)
	for i, cl := range keep {
		env := x.env0.derive(st)
		env.frame = st.stack[0]
		st.assume(Eq(env.term(cl.E), before[i]))
		x.noteLib("assumed: the function value " + name + " preserves " + cl.E.String())
	}
	return res
}

// ---------------------------------------------------------------------------
// Contract application at a call site

func (x *Exec) calleeEnv(st *State, con *Contract, sig *types.Signature, args []Val, pkg *types.Package) *Env {
	env := &Env{x: x, st: st, vars: map[string]TV{}, pkg: pkg}
	i := 0
	if sig.Recv() != nil && (con.Recv != "" || con.Kind == "interface") {
		name := con.Recv
		if name == "" {
			name = "this"
		}
		if len(args) > 0 {
			env.vars[name] = TV{args[0], sig.Recv().Type()}
			env.vars["this"] = env.vars[name]
		}
		i = 1
	} else if sig.Recv() != nil {
		i = 1
	}
	ps := sig.Params()
	for k := 0; k < ps.Len(); k++ {
		name := ""
		if k < len(con.Params) {
			name = con.Params[k]
		}
		if name == "" || name == "_" {
			name = fmt.Sprintf("$p%d", k)
		}
		if i+k < len(args) {
			env.vars[name] = TV{args[i+k], ps.At(k).Type()}
		}
	}
	return env
}

func (x *Exec) contractPkg(con *Contract) *types.Package {
	if con.Pkg == "" {
		return nil
	}
	return x.eng.typesPkg(con.Pkg)
}

func clauseLabel(cl *Clause, k int) string {
	if cl.Name != "" {
		return cl.Name
	}
	return fmt.Sprintf("%d", k+1)
}

func (x *Exec) applyContract(st *State, f *Frame, con *Contract, sig *types.Signature, args []Val, c *ssa.CallCommon) Val {
	env := x.calleeEnv(st, con, sig, args, x.contractPkg(con))
	// closures under contract: free variables are extra arguments bound by name
	name, k := "", 0
	if c != nil {
		name, k = x.eng.siteOrdinal(f.fn, c)
	}
	if con.Lib {
		x.noteLib("library contract: " + con.Sig)
	} else if con.Trusted {
		x.noteLib("trusted (body not verified): " + con.Sig)
	}
	env.lets = map[string]*Expr{}
	env.lockedSnap = &HeapSnap{m: map[string]*HeapVer{}, epoch: reg.fresh("lk"), clock: reg.freshConst("lkclock", SInt)}
	env.calleeAnch = map[string]*Anchor{}
	if c != nil {
		if cf := c.StaticCallee(); cf != nil {
			env.calleeFn = cf
		}
	}
	for _, cl := range con.Clauses {
		if cl.Kind == "let" {
			env.lets[cl.LetVar] = cl.E
		}
	}
	nreq := 0
	for _, cl := range con.Clauses {
		if cl.Kind == "requires" {
			g := env.evalBool(cl.E)
			x.emit(st, "call-pre", fmt.Sprintf("%s#%d.%s", name, k, clauseLabel(cl, nreq)), cl.Text, cl.Props, g)
			st.assume(g)
			nreq++
		}
	}
	before := st.snap()
	hasMod := false
	touchedRefFams := map[string]bool{}
	for _, cl := range con.Clauses {
		if cl.Kind == "modifies" {
			hasMod = true
			for _, m := range cl.Mods {
				for _, loc := range x.targetLocs(env, m) {
					if loc.FamPrefix == "" || (loc.FamPrefix == "clock" && loc.Exact) {
						continue
					}
					for _, fam := range x.famsFor(st, loc) {
						if _, ok := refFams.Load(fam); ok || strings.HasSuffix(fam, "#pay") {
							touchedRefFams[fam] = true
						}
					}
				}
				x.havocTarget(st, env, m)
			}
		}
	}
	if len(touchedRefFams) > 0 {
		// the callee may have allocated: the allocation set grows, and what it stored in the locations it
		// may modify are objects that exist now (possibly its own new ones), never ones allocated later
		n := newHeapConst("alloc", []Sort{SInt}, SBool, "al")
		st.asserts = append(st.asserts, fmt.Sprintf("(forall ((r Int)) (! (=> (select %s r) (select %s r)) :pattern ((select %s r))))", st.alloc.Name, n.Name, n.Name))
		st.asserts = append(st.asserts, fmt.Sprintf("(not (select %s 0))", n.Name))
		st.alloc = n
		for _, fam := range sortedKeys(touchedRefFams) {
			h := st.heaps[fam]
			if h == nil || h.Elem != SInt {
				continue
			}
			if strings.HasSuffix(fam, "#pay") {
				// interface payload: a sentinel / boxed scalar (<= 0) or an object that exists now
				if len(h.Dims) == 1 {
					st.asserts = append(st.asserts, fmt.Sprintf("(forall ((r Int)) (! (=> (select %s r) (or (<= (select %s r) 0) (select %s (select %s r)))) :pattern ((select %s r))))", n.Name, h.Name, n.Name, h.Name, h.Name))
				}
				continue
			}
			switch len(h.Dims) {
			case 1:
				st.asserts = append(st.asserts, fmt.Sprintf("(forall ((r Int)) (! (=> (select %s r) (or (= (select %s r) 0) (select %s (select %s r)))) :pattern ((select %s r))))", n.Name, h.Name, n.Name, h.Name, h.Name))
			case 2:
				st.asserts = append(st.asserts, fmt.Sprintf("(forall ((r Int) (k %s)) (! (=> (select %s r) (or (= (select (select %s r) k) 0) (select %s (select (select %s r) k)))) :pattern ((select (select %s r) k))))", h.Dims[1], n.Name, h.Name, n.Name, h.Name, h.Name))
			}
		}
	}
	if !hasMod && !con.Pure && !con.EffectFree && con.PureFn == "" {
		st.havocAll("contract without modifies clause: " + con.Sig)
	}
	var res Val
	if con.PureFn != "" {
		res = x.pureResult(st, con, sig, args)
	} else {
		hasFresh := false
		for _, cl := range con.Clauses {
			if cl.Kind == "fresh" {
				hasFresh = true
			}
		}
		res = x.freshResultsOpt(st, sig, "r_"+con.FnName, !hasFresh)
	}
	env.old = before
	x.bindResults(env, con, sig, res)
	for _, cl := range con.Clauses {
		if cl.Kind == "fresh" {
			tv := env.eval(cl.E)
			r := env.refOf(tv)
			st.assume(Cmp(">=", r, IntLit(0)))
			st.assume(Or(Eq(r, IntLit(0)), Not(Term{fmt.Sprintf("(select %s %s)", st.alloc.Name, r.S), SBool})))
			n := newHeapConst("alloc", []Sort{SInt}, SBool, "al")
			// a nil result allocates nothing (nil is never an allocated object)
			st.asserts = append(st.asserts, fmt.Sprintf("(= %s (ite (= %s 0) %s (store %s %s true)))", n.Name, r.S, st.alloc.Name, st.alloc.Name, r.S))
			st.alloc = n
			st.localRefs = append(st.localRefs, r)
		}
	}
	if res != nil {
		st.assumeAllocated(res) // after `fresh` results have been added to the allocation set
		if con.Lib {
			assumeNotOurSentinel(st, res)
		}
	}
	for _, cl := range con.Clauses {
		if cl.Kind == "ensures" {
			// a callee postcondition that cannot be evaluated any more is simply not assumed
			if g, msg := x.tryClause(env, cl.E); msg == "" {
				st.assume(g)
			} else {
				x.noteLib("postcondition of " + con.FnName + " not assumed (cannot be evaluated: " + msg + ")")
			}
		}
	}
	return res
}

func (x *Exec) bindResults(env *Env, con *Contract, sig *types.Signature, res Val) {
	rs := sig.Results()
	switch rs.Len() {
	case 0:
	case 1:
		env.vars["result"] = TV{res, rs.At(0).Type()}
		if len(con.Results) == 1 {
			env.vars[con.Results[0]] = env.vars["result"]
		}
	default:
		env.vars["result"] = TV{res, rs}
		tv := res.(TupleV)
		for i := 0; i < rs.Len(); i++ {
			if i < len(con.Results) && con.Results[i] != "_" {
				env.vars[con.Results[i]] = TV{tv.E[i], rs.At(i).Type()}
			}
		}
	}
}

func (x *Exec) pureResult(st *State, con *Contract, sig *types.Signature, args []Val) Val {
	var ts []Term
	for _, a := range args {
		ts = append(ts, st.flatten(a)...)
	}
	rs := sig.Results()
	if rs.Len() != 1 {
		bail("pure function %s with %d results", con.FnName, rs.Len())
	}
	ls := leavesOf(rs.At(0).Type())
	if len(ls) != 1 {
		bail("pure function %s with composite result", con.FnName)
	}
	fn := con.PureFn
	var t Term
	switch fn {
	case "str.prefixof", "str.suffixof":
		t = App(SBool, fn, ts[1], ts[0])
	case "str.contains":
		t = App(SBool, fn, ts[0], ts[1])
	case "str.++":
		t = App(SStr, fn, ts...)
	case "identity":
		t = ts[0]
	default:
		if sf, ok := x.eng.db.Fns[fn]; ok && sf.Body == nil {
			rs, _ := specSort(sf.Ret)
			t = reg.uf("sf"+mangle(fn)[1:], rs, ts...)
		} else {
			t = reg.uf("sf"+mangle(fn)[1:], ls[0].Sort, ts...)
		}
	}
	v, _ := unflatten(rs.At(0).Type(), []Term{t})
	st.assumeWF(v, rs.At(0).Type())
	return v
}

// FrameLoc is a location a modifies clause allows to change.
type FrameLoc struct {
	FamPrefix string // all families with this prefix
	Exact     bool   // FamPrefix is a full family name
	Idx       []Term // first index (object ref / row); nil = whole family
	typ       types.Type
}

// targetLocs evaluates a modifies target to heap locations.
func (x *Exec) targetLocs(env *Env, m *Expr) []FrameLoc {
	st := env.st
	switch m.Op {
	case "id":
		if m.Name == "clock" {
			return []FrameLoc{{FamPrefix: "clock", Exact: true}}
		}
		if m.Name == "everything" {
			return []FrameLoc{{FamPrefix: ""}}
		}
		// package-level variable
		if env.pkg != nil {
			if o, ok := env.pkg.Scope().Lookup(m.Name).(*types.Var); ok {
				if g := x.eng.global(o); g != nil {
					return []FrameLoc{{FamPrefix: "G|" + g.Pkg.Pkg.Path() + "." + g.Name() + "|"}}
				}
			}
		}
	case "sel":
		if strings.HasPrefix(m.Name, "$") {
			base := env.eval(m.Args[0])
			return []FrameLoc{{FamPrefix: "X|" + m.Name, Exact: true, Idx: []Term{env.refOf(base)}}}
		}
		base := env.eval(m.Args[0])
		pv, ok := base.V.(PtrV)
		if !ok {
			sfail("modifies target %s: base is not a pointer", m)
		}
		if m.Name == "*" {
			root, path, idx, _ := st.resolve(pv.A)
			return []FrameLoc{{FamPrefix: root + "|" + path, Idx: idx[:1]}}
		}
		stt, ok := derefType(base.T).Underlying().(*types.Struct)
		if !ok {
			sfail("modifies target %s: not a struct", m)
		}
		// walk embedded path
		obj, path, _ := types.LookupFieldOrMethod(base.T, true, env.pkgOf(base.T), m.Name)
		if obj == nil {
			for i := 0; i < stt.NumFields(); i++ {
				if stt.Field(i).Name() == m.Name {
					path = []int{i}
				}
			}
		}
		if len(path) == 0 {
			sfail("modifies target %s: no such field", m)
		}
		var a Addr = pv.A
		cur := base
		for n, idx := range path {
			s := derefType(cur.T).Underlying().(*types.Struct)
			if n > 0 {
				// embedded pointer: follow
				if pp, ok := cur.V.(PtrV); ok {
					a = pp.A
				}
			}
			a = FldAddr{a, idx, s}
			if n < len(path)-1 {
				cur = env.fieldAt(cur, idx)
			}
		}
		root, p, idx, _ := st.resolve(a)
		return []FrameLoc{{FamPrefix: root + "|" + p, Idx: idx[:1]}}
	case "call":
		switch m.Name {
		case "elems":
			tv := env.eval(m.Args[0])
			sv, ok := tv.V.(SliceV)
			if !ok {
				sfail("elems() needs a slice")
			}
			return []FrameLoc{{FamPrefix: "E|" + canon(sv.Elem) + "|", Idx: []Term{sv.Arr}}}
		case "mapof":
			tv := env.eval(m.Args[0])
			mt, ok := tv.T.Underlying().(*types.Map)
			if !ok {
				sfail("mapof() needs a map")
			}
			fam := mapFam(mt.Key(), mt.Elem())
			r := tv.V.(Sc).T
			return []FrameLoc{{FamPrefix: "MD|" + fam, Exact: true, Idx: []Term{r}}, {FamPrefix: "MV|" + fam + "|", Idx: []Term{r}}}
		case "pointee":
			// everything the pointer boxed in an interface value points to
			tv := env.eval(m.Args[0])
			iv, ok := tv.V.(IfaceV)
			if !ok {
				sfail("pointee() needs an interface value")
			}
			n, ok := isIntLit(iv.Tag)
			if !ok {
				return []FrameLoc{{FamPrefix: ""}} // unknown dynamic type: anything may change
			}
			t := reg.tagType(n)
			pt, ok := t.(*types.Pointer)
			if !ok {
				return nil // not a pointer: nothing to modify
			}
			root, p, idx, _ := st.resolve(ObjAddr{iv.Pay, pt.Elem()})
			locs := []FrameLoc{{FamPrefix: root + "|" + p, Idx: idx[:1], typ: pt.Elem()}}
			if _, isIface := pt.Elem().Underlying().(*types.Interface); isIface {
				// a pointer to an interface cell (json.Unmarshal(b, &v) with v interface{}): the decoder
				// writes through the pointer stored in the cell
				inner, ok := env.loadAt(ObjAddr{iv.Pay, pt.Elem()}, pt.Elem()).(IfaceV)
				if !ok {
					return []FrameLoc{{FamPrefix: ""}}
				}
				n2, ok := isIntLit(inner.Tag)
				if !ok {
					return []FrameLoc{{FamPrefix: ""}}
				}
				if n2 != 0 {
					if pt2, ok := reg.tagType(n2).(*types.Pointer); ok {
						r2, p2, i2, _ := st.resolve(ObjAddr{inner.Pay, pt2.Elem()})
						locs = append(locs, FrameLoc{FamPrefix: r2 + "|" + p2, Idx: i2[:1], typ: pt2.Elem()})
					}
				}
			}
			return locs
		case "hdrmap":
			// the rows of a map[string][]string (http.Header, url.Values) given by reference
			tv := env.eval(m.Args[0])
			r := env.refOf(tv)
			fam := mapFam(types.Typ[types.String], strSliceT)
			return []FrameLoc{{FamPrefix: "MD|" + fam, Exact: true, Idx: []Term{r}}, {FamPrefix: "MV|" + fam + "|", Idx: []Term{r}}}
		case "deref":
			tv := env.eval(m.Args[0])
			pv, ok := tv.V.(PtrV)
			if !ok {
				sfail("deref() needs a pointer")
			}
			root, p, idx, _ := st.resolve(pv.A)
			return []FrameLoc{{FamPrefix: root + "|" + p, Idx: idx[:1]}}
		case "ghost":
			// ghost("$name") — a whole ghost family
			if len(m.Args) == 1 && m.Args[0].Op == "str" {
				return []FrameLoc{{FamPrefix: "X|" + m.Args[0].Str, Exact: true}}
			}
		}
	}
	sfail("unsupported modifies target %s", m)
	return nil
}

func (x *Exec) havocTarget(st *State, env *Env, m *Expr) {
	for _, loc := range x.targetLocs(env, m) {
		if loc.FamPrefix == "clock" && loc.Exact {
			st.advanceClock()
			continue
		}
		if loc.FamPrefix == "" {
			st.havocAll("modifies everything")
			continue
		}
		fams := x.famsFor(st, loc)
		for _, fam := range fams {
			h := st.heaps[fam]
			if loc.Idx == nil || len(h.Dims) == 0 {
				st.havocFam(fam)
			} else if len(h.Dims) == 1 {
				st.havocAt(fam, h.Dims, h.Elem, loc.Idx)
			} else {
				st.havocRow(fam, h.Dims, h.Elem, loc.Idx[0])
			}
		}
	}
}

// famsFor lists the (materialised) families a location covers. Families never
// touched on this path are materialised from the type information when the
// prefix denotes a struct field region.
func (x *Exec) famsFor(st *State, loc FrameLoc) []string {
	x.materialise(st, loc)
	var out []string
	for fam := range st.heaps {
		if loc.Exact {
			if fam == loc.FamPrefix {
				out = append(out, fam)
			}
		} else if strings.HasPrefix(fam, loc.FamPrefix) {
			rest := fam[len(loc.FamPrefix):]
			if rest == "" || rest[0] == '.' || rest[0] == '#' || strings.HasSuffix(loc.FamPrefix, "|") {
				out = append(out, fam)
			}
		}
	}
	sort.Strings(out)
	return out
}

// materialise makes sure all families under a struct-region prefix exist in the state.
func (x *Exec) materialise(st *State, loc FrameLoc) {
	p := loc.FamPrefix
	if strings.HasPrefix(p, "X|") {
		srt, _ := x.eng.ghostSort(p[2:])
		st.heap(p, []Sort{SInt}, srt)
		return
	}
	if !strings.HasPrefix(p, "H|") && !strings.HasPrefix(p, "C|") && !strings.HasPrefix(p, "E|") && !strings.HasPrefix(p, "G|") {
		if strings.HasPrefix(p, "MD|string>slice") || strings.HasPrefix(p, "MV|string>slice") {
			st.heap("MD|string>slice", []Sort{SInt, SStr}, SBool)
			st.heap("MV|string>slice|#arr", []Sort{SInt, SStr}, SInt)
			st.heap("MV|string>slice|#len", []Sort{SInt, SStr}, SInt)
		}
		return
	}
	parts := strings.SplitN(p, "|", 3)
	if len(parts) < 3 {
		return
	}
	kind, tname, path := parts[0], parts[1], parts[2]
	var t types.Type
	if loc.typ != nil {
		t = loc.typ
	} else if kind == "G" {
		t = x.eng.globalType(tname)
	} else {
		t = x.eng.typeByCanon(tname)
	}
	if t == nil {
		return
	}
	dims := []Sort{SInt}
	if kind == "E" {
		dims = []Sort{SInt, SInt}
	}
	if kind == "G" {
		dims = nil
	}
	for _, l := range leavesOf(t) {
		if strings.HasPrefix(l.Path, path) {
			rest := l.Path[len(path):]
			if rest == "" || rest[0] == '.' || rest[0] == '#' || path == "" {
				st.heap(kind+"|"+tname+"|"+l.Path, dims, l.Sort)
			}
		}
	}
}

// ---------------------------------------------------------------------------
// Builtins

func (x *Exec) builtin(st *State, f *Frame, b *ssa.Builtin, c *ssa.CallCommon, args []Val) Val {
	switch b.Name() {
	case "len":
		switch v := args[0].(type) {
		case SliceV:
			return Sc{v.Len}
		case Sc:
			if v.T.Sort == SStr {
				return Sc{App(SInt, "str.len", v.T)}
			}
			if _, ok := c.Args[0].Type().Underlying().(*types.Map); ok {
				kt, vt := mapKV(c.Args[0].Type())
				n := x.mapLen(st, v.T, kt, vt)
				st.assume(Cmp(">=", n, IntLit(0)))
				return Sc{n}
			}
		}
	case "cap":
		if v, ok := args[0].(SliceV); ok {
			cp := reg.freshConst("cap", SInt)
			st.assume(Cmp(">=", cp, v.Len))
			return Sc{cp}
		}
	case "append":
		return x.appendVal(st, args[0], args[1], c)
	case "close":
		x.noteLib("channels: close has no modelled effect")
		return nil
	case "delete":
		kt, vt := mapKV(c.Args[0].Type())
		x.checkGuardedMapWrite(st, args[0].(Sc).T)
		x.mapDelete(st, args[0].(Sc).T, kt, vt, x.mapKey(st, args[1]))
		return nil
	case "copy":
		// copy(dst, src) on byte slices cannot mutate an immutable string model
		if d, ok := args[0].(Sc); ok {
			// []byte values are immutable strings: copy can only be modelled when the destination is a byte
			// slice this function made itself and has not sliced or shared since — then the register is rebound
			// to the new contents (src's prefix followed by the rest of dst)
			var mk ssa.Value
			switch a := c.Args[0].(type) {
			case *ssa.MakeSlice:
				if onlyPlainUses(a.Referrers()) {
					mk = a
				}
			case *ssa.Slice:
				// make([]byte, <constant>) is a whole-array slice of a fresh local array
				if al, ok := a.X.(*ssa.Alloc); ok && a.Low == nil && wholeArray(a, al) && onlyPlainUses(a.Referrers()) {
					only := true
					for _, r := range *al.Referrers() {
						if _, isDbg := r.(*ssa.DebugRef); r != ssa.Instruction(a) && !isDbg {
							only = false
						}
					}
					if only {
						mk = a
					}
				}
			}
			src, okS := args[1].(Sc)
			if mk == nil || !okS || src.T.Sort != SStr {
				bail("copy into []byte")
			}
			ld, ls := App(SInt, "str.len", d.T), App(SInt, "str.len", src.T)
			n := Ite(Cmp("<", ls, ld), ls, ld)
			nv := strConcat(App(SStr, "str.substr", src.T, IntLit(0), n), App(SStr, "str.substr", d.T, n, Sub(ld, n)))
			f.vals[mk] = Sc{nv}
			x.noteLib("copy into a byte slice made by this function: the register is rebound to the new contents")
			return Sc{n}
		}
		dst := args[0].(SliceV)
		for _, l := range leavesOf(dst.Elem) {
			fam := "E|" + canon(dst.Elem) + "|" + l.Path
			st.havocRow(fam, []Sort{SInt, SInt}, l.Sort, dst.Arr)
		}
		return Sc{reg.freshConst("copied", SInt)}
	case "recover":
		return IfaceV{IntLit(0), IntLit(0)}
	case "print", "println":
		return nil
	case "ssa:wrapnilchk":
		return args[0]
	}
	bail("builtin %s on %T", b.Name(), args[0])
	return nil
}

func (x *Exec) appendVal(st *State, s, t Val, c *ssa.CallCommon) Val {
	// byte slices: concatenation
	if a, ok := s.(Sc); ok {
		return Sc{strConcat(a.T, t.(Sc).T)}
	}
	sv := s.(SliceV)
	if tsc, ok := t.(Sc); ok && tsc.T.Sort == SStr {
		bail("append(string...) to non-byte slice")
	}
	tv := t.(SliceV)
	n, ok := isIntLit(tv.Len)
	if !ok || n > 8 {
		return x.appendSlice(st, sv, tv)
	}
	cur := sv
	for k := int64(0); k < n; k++ {
		el := st.loadAt(ElemAddr{tv.Arr, Add(tv.Off, IntLit(k)), tv.Elem}, tv.Elem)
		cur = x.append1(st, cur, el)
	}
	return cur
}

// append1 models append(s, v) as allocation of a fresh backing array that is a
// copy of the old one with v stored at position off+len.
func (x *Exec) append1(st *State, sv SliceV, el Val) SliceV {
	r := st.newRef("append")
	ls := st.flatten(el)
	pos := Add(sv.Off, sv.Len)
	for k, l := range leavesOf(sv.Elem) {
		fam := "E|" + canon(sv.Elem) + "|" + l.Path
		dims := []Sort{SInt, SInt}
		h := st.heap(fam, dims, l.Sort)
		st.recWriteH(h, r)
		n := newHeapConst(fam, dims, l.Sort, "h")
		st.asserts = append(st.asserts, fmt.Sprintf("(= %s (store %s %s (store (select %s %s) %s %s)))", n.Name, h.Name, r.S, h.Name, sv.Arr.S, pos.S, ls[k].S))
		st.heaps[fam] = n
	}
	return SliceV{r, sv.Off, Add(sv.Len, IntLit(1)), sv.Elem}
}

// appendSlice: append(s, t...) with a symbolic-length t: fresh array, quantified copy.
func (x *Exec) appendSlice(st *State, sv, tv SliceV) SliceV {
	r := st.newRef("appendn")
	for _, l := range leavesOf(sv.Elem) {
		fam := "E|" + canon(sv.Elem) + "|" + l.Path
		dims := []Sort{SInt, SInt}
		h := st.heap(fam, dims, l.Sort)
		st.recWriteH(h, r)
		row := reg.fresh("row")
		reg.declare(row, fmt.Sprintf("(declare-const %s (Array Int %s))", row, l.Sort))
		q := reg.fresh("q")
		st.asserts = append(st.asserts,
			fmt.Sprintf("(forall ((%s Int)) (! (=> (and (<= 0 %s) (< %s %s)) (= (select %s %s) (select (select %s %s) (+ %s %s)))) :pattern ((select %s %s))))",
				q, q, q, sv.Len.S, row, q, h.Name, sv.Arr.S, sv.Off.S, q, row, q),
			fmt.Sprintf("(forall ((%s Int)) (! (=> (and (<= 0 %s) (< %s %s)) (= (select %s (+ %s %s)) (select (select %s %s) (+ %s %s)))) :pattern ((select %s (+ %s %s)))))",
				q, q, q, tv.Len.S, row, sv.Len.S, q, h.Name, tv.Arr.S, tv.Off.S, q, row, sv.Len.S, q))
		n := newHeapConst(fam, dims, l.Sort, "h")
		st.asserts = append(st.asserts, fmt.Sprintf("(= %s (store %s %s %s))", n.Name, h.Name, r.S, row))
		st.heaps[fam] = n
	}
	return SliceV{r, IntLit(0), Add(sv.Len, tv.Len), sv.Elem}
}

// ---------------------------------------------------------------------------
// Lock discipline

func guardKey(a Addr) (ref Term, t types.Type, field string, ok bool) {
	for {
		fa, isF := a.(FldAddr)
		if !isF {
			return Term{}, nil, "", false
		}
		if oa, isO := fa.Base.(ObjAddr); isO {
			return oa.Ref, oa.Elem, fa.ST.Field(fa.Idx).Name(), true
		}
		a = fa.Base
	}
}

func (x *Exec) checkGuard(st *State, a Addr, write bool) {
	ref, t, field, ok := guardKey(a)
	if !ok {
		return
	}
	ts := x.eng.typeSpec(t)
	if ts == nil {
		return
	}
	mu, ok := ts.Guarded[field]
	if !ok {
		return
	}
	for _, r := range st.localRefs {
		if r.S == ref.S {
			return // object under construction, not yet shared
		}
	}
	if st.held[ref.S+"."+mu] {
		return
	}
	x.emit(st, "lockset", fmt.Sprintf("%s.%s", ts.TypeName, field), fmt.Sprintf("access to %s.%s requires %s held", ts.TypeName, field, mu), nil, TFalse)
}

// checkGuardedMapWrite: a map reached through a guarded field is written only with the mutex held exclusively.
func (x *Exec) checkGuardedMapWrite(st *State, m Term) {
	g, ok := st.ghost["gm:"+m.S]
	if os.Getenv("SSOVC_TRACE") != "" {
		fmt.Fprintf(os.Stderr, "guarded-map-write? %s known=%v\n", m.S, ok)
		for k := range st.ghost {
			if strings.HasPrefix(k, "gm:") {
				fmt.Fprintf(os.Stderr, "   %s\n", k)
			}
		}
	}
	if !ok {
		return
	}
	if st.held[g.S] && st.ghost["rl:"+g.S].S == "" {
		return
	}
	x.emit(st, "lockset", "guarded-map-write", "a write to a map guarded by a mutex requires the mutex held exclusively (not released, not a read lock)", nil, TFalse)
}

// lockOp handles Lock/Unlock/RLock/RUnlock on a mutex field of a type with a spec.
func (x *Exec) lockOp(st *State, f *Frame, a Addr, lock bool) {
	ref, t, field, ok := guardKey(a)
	if !ok {
		x.noteLib("mutex not a field of a specified type: lock operation ignored")
		return
	}
	ts := x.eng.typeSpec(t)
	if ts == nil {
		x.noteLib("lock on " + canon(t) + "." + field + ": type has no spec; lock operation ignored")
		return
	}
	key := ref.S + "." + field
	named := t
	stt := t.Underlying().(*types.Struct)
	this := TV{PtrV{ObjAddr{ref, named}}, types.NewPointer(named)}
	if lock {
		st.held[key] = true
		// other threads may have changed everything the mutex guards
		for i := 0; i < stt.NumFields(); i++ {
			fn := stt.Field(i).Name()
			if ts.Guarded[fn] != field {
				continue
			}
			fa := FldAddr{ObjAddr{ref, named}, i, stt}
			root, path, idx, dims := st.resolve(fa)
			for _, l := range leavesOf(stt.Field(i).Type()) {
				st.havocAt(root+"|"+path+l.Path, dims, l.Sort, idx)
			}
			// contents reachable through guarded maps and slices
			v := st.loadAt(fa, stt.Field(i).Type())
			switch ft := stt.Field(i).Type().Underlying().(type) {
			case *types.Map:
				fam := mapFam(ft.Key(), ft.Elem())
				m := v.(Sc).T
				st.ghost["gm:"+m.S] = Term{key, SInt} // this map is reachable only through the guarded field
				st.havocRow("MD|"+fam, []Sort{SInt, keySort(ft.Key())}, SBool, m)
				for _, l := range leavesOf(ft.Elem()) {
					st.havocRow("MV|"+fam+"|"+l.Path, []Sort{SInt, keySort(ft.Key())}, l.Sort, m)
				}
			case *types.Slice:
				if sv, ok := v.(SliceV); ok {
					for _, l := range leavesOf(ft.Elem()) {
						st.havocRow("E|"+canon(ft.Elem())+"|"+l.Path, []Sort{SInt, SInt}, l.Sort, sv.Arr)
					}
				}
			}
		}
		for g, m := range ts.Guarded {
			if m == field && strings.HasPrefix(g, "$") {
				srt, _ := x.eng.ghostSort(g)
				st.havocAt("X|"+g, []Sort{SInt}, srt, []Term{ref})
			}
		}
		env := &Env{x: x, st: st, vars: map[string]TV{"this": this}, pkg: x.eng.typesPkg(ts.Pkg)}
		for _, cl := range ts.Inv {
			st.assume(env.evalBool(cl.E))
		}
		st.lockSnap[key] = st.snap()
		st.lastLock = st.lockSnap[key]
		// the frame of guarded state is relative to its value at acquisition
		if st.frameBase == nil {
			st.frameBase = map[string]*HeapVer{}
		}
		for i := 0; i < stt.NumFields(); i++ {
			if ts.Guarded[stt.Field(i).Name()] != field {
				continue
			}
			root, path, _, _ := st.resolve(FldAddr{ObjAddr{ref, named}, i, stt})
			for _, l := range leavesOf(stt.Field(i).Type()) {
				fam := root + "|" + path + l.Path
				st.frameBase[fam] = st.heaps[fam]
			}
			switch ft := stt.Field(i).Type().Underlying().(type) {
			case *types.Map:
				fam := mapFam(ft.Key(), ft.Elem())
				st.frameBase["MD|"+fam] = st.heaps["MD|"+fam]
				for _, l := range leavesOf(ft.Elem()) {
					st.frameBase["MV|"+fam+"|"+l.Path] = st.heaps["MV|"+fam+"|"+l.Path]
				}
			case *types.Slice:
				for _, l := range leavesOf(ft.Elem()) {
					k := "E|" + canon(ft.Elem()) + "|" + l.Path
					st.frameBase[k] = st.heaps[k]
				}
			}
		}
		x.noteLib("monitor rule: sync.Mutex gives mutual exclusion; at Lock() guarded state is arbitrary subject to the type invariant")
		return
	}
	env := &Env{x: x, st: st, vars: map[string]TV{"this": this}, pkg: x.eng.typesPkg(ts.Pkg)}
	for k, cl := range ts.Inv {
		x.emit(st, "typeinv-at-unlock", fmt.Sprintf("%s.%s", ts.TypeName, clauseLabel(cl, k)), cl.Text, cl.Props, env.evalBool(cl.E))
	}
	delete(st.held, key)
	delete(st.ghost, "rl:"+key)
}

// applyUF is the uninterpreted application of an opaque pure function value.
func applyUF(ret Sort, ts []Term) Term {
	name := "dynapp_" + ret.String()
	for _, t := range ts[1:] {
		name += "_" + t.Sort.String()
	}
	return reg.uf(name, ret, ts...)
}

// dynMode finds a `dyn` declaration for a called function value: a struct field of a type
// with a spec, or a parameter named in the root contract.
func (x *Exec) dynMode(f *Frame, c *ssa.CallCommon, name string) string {
	if u, ok := c.Value.(*ssa.UnOp); ok {
		if fa, ok := u.X.(*ssa.FieldAddr); ok {
			t := fa.X.Type().Underlying().(*types.Pointer).Elem()
			if ts := x.eng.typeSpec(t); ts != nil {
				if m, ok := ts.Dyn[name]; ok {
					return m
				}
			}
		}
	}
	if con := x.eng.contractFor(f.fn); con != nil {
		for _, d := range con.Dyn {
			if d[0] == name {
				return d[1]
			}
		}
	}
	return ""
}

// checkSinks: a call the root contract declares as a sink must satisfy the sink's precondition.
// Sinks are matched by call-site name (method / function / function-value name) in the root
// function and in closures and callees inlined into it.
func (x *Exec) checkSinks(st *State, f *Frame, c *ssa.CallCommon, args []Val) {
	if x.con == nil || x.dry != nil {
		return
	}
	name := callSiteName(c)
	for _, cl := range x.con.Clauses {
		if cl.Kind != "sink" || lastComp(cl.Sink) != name {
			continue
		}
		env := x.env0.derive(st)
		env.frame = st.stack[0]
		k := 0
		if c.IsInvoke() {
			env.vars["$recv"] = TV{args[0], c.Value.Type()}
			k = 1
		}
		for i := range c.Args {
			if k+i < len(args) {
				env.vars[fmt.Sprintf("$arg%d", i)] = TV{args[k+i], c.Args[i].Type()}
			}
		}
		g, msg := x.tryClause(env, cl.E)
		cn := cl.Name
		if cn == "" {
			cn = name
		}
		text := cl.Text
		if msg != "" {
			text += "   [cannot be evaluated on this code: " + msg + "]"
		}
		x.emit(st, "sink", cn, text, cl.Props, g)
	}
}

// assumeNotOurSentinel: an error value produced by library code is never one of this module's own
// package-level error sentinels (payloads -1..-999); library sentinels are <= -1000.
func assumeNotOurSentinel(st *State, v Val) {
	switch x := v.(type) {
	case IfaceV:
		if _, ok := isIntLit(x.Pay); !ok {
			st.assume(Or(Cmp(">=", x.Pay, IntLit(0)), Cmp("<=", x.Pay, IntLit(-1000))))
		}
	case TupleV:
		for _, e := range x.E {
			assumeNotOurSentinel(st, e)
		}
	}
}

func sortedKeys(m map[string]bool) []string {
	var out []string
	for k := range m {
		out = append(out, k)
	}
	sort.Strings(out)
	return out
}

// onlyPlainUses: the made slice is only passed to calls (copy, functions) and debug references — never
// re-sliced, indexed or stored, so no alias of it can observe the rebinding.
func onlyPlainUses(refs *[]ssa.Instruction) bool {
	if refs == nil {
		return false
	}
	for _, r := range *refs {
		switch r.(type) {
		case ssa.CallInstruction, *ssa.DebugRef:
		default:
			return false
		}
	}
	return true
}

// wholeArray: s is x[:] or x[:len(x)] of the local array al.
func wholeArray(s *ssa.Slice, al *ssa.Alloc) bool {
	if s.High == nil {
		return true
	}
	at, ok := al.Type().Underlying().(*types.Pointer).Elem().Underlying().(*types.Array)
	c, ok2 := s.High.(*ssa.Const)
	if !ok || !ok2 || c.Value == nil {
		return false
	}
	n, exact := constant.Int64Val(c.Value)
	return exact && n == at.Len()
}
