package main

import (
	"go/ast"
	"fmt"
	"go/constant"
	"go/types"
	"strings"

	"golang.org/x/tools/go/ssa"
)

// TV is a spec-level value with its Go type (nil for spec-only sorts).
type TV struct {
	V Val
	T types.Type
}

type specError struct{ msg string }

func (e specError) Error() string { return "contract-error: " + e.msg }

func sfail(format string, a ...interface{}) { panic(specError{fmt.Sprintf(format, a...)}) }

// Env evaluates spec expressions.
type Env struct {
	x      *Exec
	st     *State
	cur    *HeapSnap // nil: live state
	old    *HeapSnap // for old(e)
	vars   map[string]TV
	lets   map[string]*Expr
	pkg    *types.Package
	frame  *Frame
	anchSt *State // where anchors are looked up (nil: st)
	inOld  bool
	bound   map[string]bool
	depth   int
	pattern *Expr
	localsOnly bool
	localOrd   int
	// at a call site the state in which the callee acquired its lock is unknown to the caller
	lockedSnap *HeapSnap
	visited    string // SMT array: keys already visited by the map iteration of the current loop
	calleeAnch map[string]*Anchor
	calleeFn   *ssa.Function
}

func (e *Env) derive(st *State) *Env {
	n := *e
	n.st = st
	n.vars = make(map[string]TV, len(e.vars))
	for k, v := range e.vars {
		n.vars[k] = v
	}
	return &n
}

func (e *Env) with(name string, v TV) *Env {
	n := e.derive(e.st)
	n.vars[name] = v
	return n
}

func (e *Env) load(fam string, dims []Sort, elem Sort, idx []Term) Term {
	if e.inOld && e.old != nil {
		return e.old.load(fam, dims, elem, idx)
	}
	if e.cur != nil {
		return e.cur.load(fam, dims, elem, idx)
	}
	return e.st.load(fam, dims, elem, idx)
}

func (e *Env) clockNow() Term {
	if e.inOld && e.old != nil {
		return e.old.clock
	}
	if e.cur != nil {
		return e.cur.clock
	}
	return e.st.clock
}

func (e *Env) loadAt(a Addr, t types.Type) Val {
	if g, ok := a.(GlobAddr); ok && theEngine != nil {
		if v, ok := theEngine.immutableGlobal(g.G); ok {
			return v
		}
		if v, ok := theEngine.literalGlobal(e.st, g.G); ok {
			return v
		}
	}
	root, path, idx, dims := e.st.resolve(a)
	var ls []Term
	for _, l := range leavesOf(t) {
		ls = append(ls, e.load(root+"|"+path+l.Path, dims, l.Sort, idx))
	}
	v, _ := unflatten(t, ls)
	return v
}

func (e *Env) evalBool(x *Expr) Term {
	tv := e.eval(x)
	s, ok := tv.V.(Sc)
	if !ok || s.T.Sort != SBool {
		sfail("boolean expected: %s", x)
	}
	return s.T
}

func scInt(t Term) TV  { return TV{Sc{t}, types.Typ[types.Int]} }
func scBool(t Term) TV { return TV{Sc{t}, types.Typ[types.Bool]} }
func scStr(t Term) TV  { return TV{Sc{t}, types.Typ[types.String]} }

func (e *Env) term(x *Expr) Term {
	tv := e.eval(x)
	s, ok := tv.V.(Sc)
	if !ok {
		if p, ok := tv.V.(PtrV); ok {
			return e.st.addrTerm(p.A)
		}
		sfail("scalar expected: %s (got %T)", x, tv.V)
	}
	return s.T
}

// specDepth > 0 while a contract expression is being evaluated (dereferences inside specifications are not
// program dereferences: they generate no nil-deref obligations).
var specDepth int

func (e *Env) eval(x *Expr) TV {
	specDepth++
	defer func() { specDepth-- }()
	switch x.Op {
	case "int":
		return scInt(IntLit(x.Int))
	case "str":
		return scStr(StrLit(x.Str))
	case "id":
		return e.ident(x.Name)
	case "un":
		switch x.Name {
		case "!":
			return scBool(Not(e.evalBool(x.Args[0])))
		case "-":
			return scInt(Sub(IntLit(0), e.term(x.Args[0])))
		}
	case "bin":
		return e.bin(x)
	case "cond":
		c := e.evalBool(x.Args[0])
		a, b := e.eval(x.Args[1]), e.eval(x.Args[2])
		la, lb := e.st.flatten(a.V), e.st.flatten(b.V)
		if len(la) != len(lb) {
			sfail("branches of ?: differ: %s", x)
		}
		var ls []Term
		for i := range la {
			ls = append(ls, Ite(c, la[i], lb[i]))
		}
		if a.T != nil {
			v, _ := unflatten(a.T, ls)
			return TV{v, a.T}
		}
		return TV{Sc{ls[0]}, nil}
	case "old":
		n := *e
		n.inOld = true
		return n.eval(x.Args[0])
	case "forall", "exists":
		n := e.derive(e.st)
		var decl []string
		for _, v := range x.Vars {
			vn, vt := v, "int"
			if i := strings.Index(v, ":"); i >= 0 {
				vn, vt = v[:i], v[i+1:]
			}
			srt, gt := specSort(vt)
			name := "q" + reg.fresh(vn)
			n.vars[vn] = TV{Sc{Term{name, srt}}, gt}
			decl = append(decl, fmt.Sprintf("(%s %s)", name, srt))
		}
		axPat := e.pattern
		n.pattern = nil // an axiom's pattern belongs to its outermost quantifier only
		body := n.evalBool(x.Args[0])
		n.pattern = axPat
		if len(x.Args) > 1 {
			var ps []string
			for _, pe := range x.Args[1:] {
				pt := n.eval(pe)
				ps = append(ps, e.st.flatten(pt.V)[0].S)
			}
			return scBool(Term{fmt.Sprintf("(%s (%s) (! %s :pattern (%s)))", x.Op, strings.Join(decl, " "), body.S, strings.Join(ps, " ")), SBool})
		}
		if e.pattern != nil {
			pt := n.eval(e.pattern)
			ps := e.st.flatten(pt.V)
			return scBool(Term{fmt.Sprintf("(%s (%s) (! %s :pattern (%s)))", x.Op, strings.Join(decl, " "), body.S, ps[0].S), SBool})
		}
		return scBool(Term{fmt.Sprintf("(%s (%s) %s)", x.Op, strings.Join(decl, " "), body.S), SBool})
	case "sel":
		return e.sel(x)
	case "tuplesel":
		base := e.eval(x.Args[0])
		tv, ok := base.V.(TupleV)
		if !ok {
			if x.Int == 0 {
				return base
			}
			sfail("not a tuple: %s", x.Args[0])
		}
		if int(x.Int) >= len(tv.E) {
			sfail("tuple index out of range: %s", x)
		}
		var t types.Type
		if tt, ok := base.T.(*types.Tuple); ok {
			t = tt.At(int(x.Int)).Type()
		}
		return TV{tv.E[x.Int], t}
	case "idx":
		return e.index(x)
	case "call":
		return e.call(x)
	case "anchor":
		a := e.anchor(x)
		if len(a.Rets) == 1 {
			return TV{a.Rets[0], a.RetT.At(0).Type()}
		}
		return TV{TupleV{a.Rets}, a.RetT}
	}
	sfail("cannot evaluate %s", x)
	return TV{}
}

func (e *Env) anchor(x *Expr) *Anchor {
	st := e.st
	if e.anchSt != nil {
		st = e.anchSt
	}
	key := fmt.Sprintf("%s#%d", x.Name, x.Int)
	if e.calleeAnch != nil {
		// a callee's contract applied at a call site: its internal calls are unknown to the caller
		if a, ok := e.calleeAnch[key]; ok {
			return a
		}
		if e.calleeFn == nil {
			sfail("anchor @%s in a contract without a body", key)
		}
		sub := &Exec{eng: e.x.eng, root: e.calleeFn}
		tmp := &State{anchors: map[string]*Anchor{}, heaps: st.heaps, epoch: st.epoch, clock: st.clock, alloc: st.alloc}
		a := sub.phantomAnchor(tmp, x.Name, int(x.Int))
		st.asserts = append(st.asserts, tmp.asserts...)
		a.Called = reg.freshConst("called_"+lastComp(x.Name), SBool)
		a.Before = e.lockedSnap
		a.After = &HeapSnap{m: map[string]*HeapVer{}, epoch: reg.fresh("an"), clock: reg.freshConst("anclock", SInt)}
		e.calleeAnch[key] = a
		return a
	}
	if a, ok := st.anchors[key]; ok {
		return a
	}
	// not called on this path: the anchor must at least exist in the function
	if e.x != nil && !e.x.anchorExists(x.Name, int(x.Int)) {
		sfail("anchor @%s does not occur in %s", key, e.x.fnName())
	}
	return e.x.phantomAnchor(st, x.Name, int(x.Int))
}

func (e *Env) ident(name string) TV {
	if v, ok := e.vars[name]; ok {
		return v
	}
	if le, ok := e.lets[name]; ok {
		if e.depth > 20 {
			sfail("let recursion: %s", name)
		}
		n := *e
		n.depth++
		return n.eval(le)
	}
	switch name {
	case "true":
		return scBool(TTrue)
	case "false":
		return scBool(TFalse)
	case "nil":
		return TV{Sc{IntLit(0)}, types.Typ[types.UntypedNil]}
	case "clock":
		return scInt(e.clockNow())
	case "ZERO":
		return scInt(IntLit(0))
	}
	// loop variables via SSA names
	if e.frame != nil {
		if tv, ok := e.ssaVar(name); ok {
			e.x.eng.noteLocalUse(e.frame.fn, name, tv.T)
			return tv
		}
		if tv, ok := e.phantomLocal(e.frame.fn, name); ok {
			e.x.eng.noteLocalUse(e.frame.fn, name, tv.T)
			return tv
		}
		// the contract names a local variable this function no longer has: if the unchanged tree had a local of
		// that name and exactly one local of the recorded type is not named by the contract, the variable was
		// renamed — the clause is then evaluated (and must be proved) about that variable
		if alt := e.x.eng.renamedLocal(e.frame.fn, e.x.con, name); alt != "" {
			if tv, ok := e.vars[alt]; ok {
				e.x.noteLib("contract names local " + name + ", which does not exist; the only unnamed local of its recorded type, " + alt + ", is used instead")
				return tv
			}
			if tv, ok := e.ssaVar(alt); ok {
				e.x.noteLib("contract names local " + name + ", which does not exist; the only unnamed local of its recorded type, " + alt + ", is used instead")
				return tv
			}
			if tv, ok := e.phantomLocal(e.frame.fn, alt); ok {
				return tv
			}
		}
	}
	// a callee's local variable, seen from a call site: unknown
	if e.calleeFn != nil {
		if tv, ok := e.phantomLocal(e.calleeFn, name); ok {
			return tv
		}
	}
	// implicit this.field
	if th, ok := e.vars["this"]; ok {
		if strings.HasPrefix(name, "$") {
			return e.ghostField(th, name)
		}
		if tv, ok := e.fieldByName(th, name); ok {
			return tv
		}
	}
	// package-level objects
	if e.pkg != nil {
		if o := e.pkg.Scope().Lookup(name); o != nil {
			return e.pkgObj(o)
		}
	}
	sfail("unknown identifier %q", name)
	return TV{}
}

func timeZero() Term {
	reg.declare("u_TIMEZERO", "(declare-const u_TIMEZERO Int)")
	return Term{"u_TIMEZERO", SInt}
}

func (e *Env) pkgObj(o types.Object) TV {
	switch ob := o.(type) {
	case *types.Const:
		switch {
		case ob.Val().Kind() == constant.Bool:
			return scBool(BoolLit(constant.BoolVal(ob.Val())))
		case ob.Val().Kind() == constant.String:
			return TV{Sc{StrLit(constant.StringVal(ob.Val()))}, ob.Type()}
		case ob.Val().Kind() == constant.Int:
			n, _ := constant.Int64Val(ob.Val())
			return TV{Sc{IntLit(n)}, ob.Type()}
		}
	case *types.Var:
		// package-level variable
		g := e.x.eng.global(ob)
		if g == nil {
			sfail("no SSA global for %s", ob.Name())
		}
		return TV{e.loadAt(GlobAddr{g}, ob.Type()), ob.Type()}
	}
	sfail("cannot use package object %s", o.Name())
	return TV{}
}

// ssaVar resolves a source variable name through phi/alloc comments or parameters of the frame.
func (e *Env) ssaVar(name string) (TV, bool) {
	f := e.frame
	for _, p := range f.fn.Params {
		if e.localsOnly {
			break // local("name"): a local variable that shadows a parameter of the same name
		}
		if p.Name() == name {
			if v, ok := f.vals[p]; ok {
				return TV{v, p.Type()}, true
			}
		}
	}
	for _, p := range f.fn.FreeVars {
		if p.Name() == name {
			if v, ok := f.vals[p]; ok {
				// free variables are pointers to the captured variable
				if pt, ok := p.Type().Underlying().(*types.Pointer); ok {
					if pv, ok := v.(PtrV); ok {
						return TV{e.loadAt(pv.A, pt.Elem()), pt.Elem()}, true
					}
				}
				return TV{v, p.Type()}, true
			}
		}
	}
	// escaped locals
	nth := 0
	for _, b := range f.fn.Blocks {
		for _, in := range b.Instrs {
			if a, ok := in.(*ssa.Alloc); ok && a.Comment == name {
				nth++
				if e.localOrd > 0 && nth != e.localOrd {
					continue // local("name", k): the k-th variable of that name in the function
				}
				if v, ok := f.vals[a]; ok {
					el := a.Type().Underlying().(*types.Pointer).Elem()
					return TV{e.loadAt(v.(PtrV).A, el), el}, true
				}
			}
		}
	}
	if e.localOrd > 0 {
		return TV{}, false // local("name", k) names an addressable variable only
	}
	// values named in debug comments (phis)
	var best ssa.Value
	for v := range f.vals {
		if phi, ok := v.(*ssa.Phi); ok && phi.Comment == name {
			if best == nil || phi.Block().Index > best.(*ssa.Phi).Block().Index {
				best = phi
			}
		}
	}
	if best != nil {
		return TV{f.vals[best], best.Type()}, true
	}
	// single-assignment locals that are plain SSA values: named by the builder's debug references
	var dbg ssa.Value
	for _, b := range f.fn.Blocks {
		for _, in := range b.Instrs {
			if d, ok := in.(*ssa.DebugRef); ok && !d.IsAddr && isLocalVar(d) {
				if id, ok := d.Expr.(*ast.Ident); ok && id.Name == name {
					if _, have := f.vals[d.X]; have {
						dbg = d.X
					} else if _, isConst := d.X.(*ssa.Const); isConst && dbg == nil {
						dbg = d.X
					}
				}
			}
		}
	}
	if dbg != nil {
		if c, ok := dbg.(*ssa.Const); ok {
			return TV{e.x.val(e.st, f, c), c.Type()}, true
		}
		return TV{f.vals[dbg], dbg.Type()}, true
	}
	return TV{}, false
}

func (e *Env) bin(x *Expr) TV {
	op := x.Name
	switch op {
	case "&&":
		return scBool(And(e.evalBool(x.Args[0]), e.evalBool(x.Args[1])))
	case "||":
		return scBool(Or(e.evalBool(x.Args[0]), e.evalBool(x.Args[1])))
	case "==>":
		return scBool(Implies(e.evalBool(x.Args[0]), e.evalBool(x.Args[1])))
	case "<==>":
		return scBool(Eq(e.evalBool(x.Args[0]), e.evalBool(x.Args[1])))
	case "==", "!=":
		a, b := e.eval(x.Args[0]), e.eval(x.Args[1])
		t := e.specEq(a, b)
		if op == "!=" {
			t = Not(t)
		}
		return scBool(t)
	case "in":
		k := e.eval(x.Args[0])
		m := e.eval(x.Args[1])
		mt, ok := m.T.Underlying().(*types.Map)
		if !ok {
			sfail("'in' needs a map: %s", x)
		}
		key := e.st.flatten(k.V)[0]
		return scBool(e.load("MD|"+mapFam(mt.Key(), mt.Elem()), []Sort{SInt, keySort(mt.Key())}, SBool, []Term{m.V.(Sc).T, key}))
	}
	a, b := e.term(x.Args[0]), e.term(x.Args[1])
	switch op {
	case "+":
		if a.Sort == SStr {
			return scStr(strConcat(a, b))
		}
		return scInt(Add(a, b))
	case "-":
		return scInt(Sub(a, b))
	case "*":
		return scInt(App(SInt, "*", a, b))
	case "/":
		return scInt(App(SInt, "div", a, b))
	case "%":
		return scInt(App(SInt, "mod", a, b))
	case "<", "<=", ">", ">=":
		return scBool(Cmp(op, a, b))
	}
	sfail("operator %s", op)
	return TV{}
}

func isNilTV(a TV) bool {
	b, ok := a.T.(*types.Basic)
	return ok && b.Kind() == types.UntypedNil
}

func (e *Env) specEq(a, b TV) Term {
	if isNilTV(a) {
		a, b = b, a
	}
	if isNilTV(b) {
		switch v := a.V.(type) {
		case IfaceV:
			return Eq(v.Tag, IntLit(0))
		case PtrV:
			return Eq(e.st.addrTerm(v.A), IntLit(0))
		case Sc:
			return Eq(v.T, IntLit(0))
		case SliceV:
			return Eq(v.Arr, IntLit(0))
		case *ClosV:
			return TFalse
		}
		sfail("nil comparison on %T", a.V)
	}
	la, lb := e.st.flatten(a.V), e.st.flatten(b.V)
	if len(la) != len(lb) {
		sfail("== on values of different shape (%T vs %T)", a.V, b.V)
	}
	if sa, ok := a.V.(SliceV); ok {
		sb := b.V.(SliceV)
		return And(Eq(sa.Arr, sb.Arr), Eq(sa.Len, sb.Len))
	}
	var cs []Term
	for i := range la {
		if la[i].Sort != lb[i].Sort {
			sfail("== on different sorts")
		}
		cs = append(cs, Eq(la[i], lb[i]))
	}
	return And(cs...)
}

func derefType(t types.Type) types.Type {
	if t == nil {
		return nil
	}
	if p, ok := t.Underlying().(*types.Pointer); ok {
		return p.Elem()
	}
	return t
}

func (e *Env) sel(x *Expr) TV {
	// pkg.Name: an object of an imported (or any loaded) package
	if b := x.Args[0]; b.Op == "id" {
		if _, ok := e.vars[b.Name]; !ok {
			if _, ok := e.lets[b.Name]; !ok {
				if _, isVar := e.ssaVarMaybe(b.Name); !isVar {
					if p := e.x.eng.findPkgFrom(e.pkg, b.Name); p != nil {
						if o := p.Scope().Lookup(x.Name); o != nil {
							return e.pkgObj(o)
						}
					}
				}
			}
		}
	}
	base := e.eval(x.Args[0])
	name := x.Name
	// ghost field
	if strings.HasPrefix(name, "$") {
		return e.ghostField(base, name)
	}
	if base.T == nil {
		sfail("selector %s on untyped value", name)
	}
	// method-like projections on interface values
	if iv, ok := base.V.(IfaceV); ok {
		switch name {
		case "tag":
			return scInt(iv.Tag)
		case "pay":
			return scInt(iv.Pay)
		}
	}
	obj, path, _ := types.LookupFieldOrMethod(base.T, true, e.pkgOf(base.T), name)
	fld, ok := obj.(*types.Var)
	if !ok || fld == nil {
		// unexported fields of other packages: look up by name manually
		if tv, ok := e.fieldByName(base, name); ok {
			return tv
		}
		sfail("no field %s in %s", name, base.T)
	}
	cur := base
	for _, idx := range path {
		cur = e.fieldAt(cur, idx)
	}
	return cur
}

func (e *Env) pkgOf(t types.Type) *types.Package {
	t = derefType(t)
	if n, ok := t.(*types.Named); ok && n.Obj().Pkg() != nil {
		return n.Obj().Pkg()
	}
	return e.pkg
}

func (e *Env) fieldByName(base TV, name string) (TV, bool) {
	st, ok := derefType(base.T).Underlying().(*types.Struct)
	if !ok {
		return TV{}, false
	}
	for i := 0; i < st.NumFields(); i++ {
		if st.Field(i).Name() == name {
			return e.fieldAt(base, i), true
		}
	}
	return TV{}, false
}

func (e *Env) fieldAt(base TV, idx int) TV {
	switch v := base.V.(type) {
	case PtrV:
		st := derefType(base.T).Underlying().(*types.Struct)
		ft := st.Field(idx).Type()
		return TV{e.loadAt(FldAddr{v.A, idx, st}, ft), ft}
	case StructV:
		st := base.T.Underlying().(*types.Struct)
		return TV{v.F[idx], st.Field(idx).Type()}
	}
	sfail("field access on %T", base.V)
	return TV{}
}

// ghostField reads a ghost field: a heap family keyed by the object's reference.
func (e *Env) ghostField(base TV, name string) TV {
	ref := e.refOf(base)
	srt, gt := e.x.eng.ghostSort(name)
	t := e.load("X|"+name, []Sort{SInt}, srt, []Term{ref})
	return TV{Sc{t}, gt}
}

func (e *Env) refOf(base TV) Term {
	switch v := base.V.(type) {
	case PtrV:
		return e.st.addrTerm(v.A)
	case IfaceV:
		return v.Pay
	case Sc:
		return v.T
	case SliceV:
		return v.Arr
	}
	sfail("ghost field on %T", base.V)
	return Term{}
}

func (e *Env) index(x *Expr) TV {
	base := e.eval(x.Args[0])
	switch v := base.V.(type) {
	case SliceV:
		i := e.term(x.Args[1])
		return TV{e.loadAt(ElemAddr{v.Arr, Add(v.Off, i), v.Elem}, v.Elem), v.Elem}
	case Sc:
		if base.T != nil {
			if mt, ok := base.T.Underlying().(*types.Map); ok {
				k := e.eval(x.Args[1])
				key := e.st.flatten(k.V)[0]
				fam := mapFam(mt.Key(), mt.Elem())
				ks := keySort(mt.Key())
				has := e.load("MD|"+fam, []Sort{SInt, ks}, SBool, []Term{v.T, key})
				zs := e.st.flatten(zeroVal(mt.Elem()))
				var ls []Term
				for k, l := range leavesOf(mt.Elem()) {
					t := e.load("MV|"+fam+"|"+l.Path, []Sort{SInt, ks}, l.Sort, []Term{v.T, key})
					ls = append(ls, Ite(has, t, zs[k]))
				}
				r, _ := unflatten(mt.Elem(), ls)
				return TV{r, mt.Elem()}
			}
		}
		if v.T.Sort == SStr {
			i := e.term(x.Args[1])
			return scStr(App(SStr, "str.at", v.T, i))
		}
	}
	sfail("cannot index %s", x.Args[0])
	return TV{}
}

func (e *Env) lenOf(a TV) Term {
	switch v := a.V.(type) {
	case SliceV:
		return v.Len
	case Sc:
		if v.T.Sort == SStr {
			return App(SInt, "str.len", v.T)
		}
		if a.T != nil {
			if mt, ok := a.T.Underlying().(*types.Map); ok {
				name := "u_card_" + keySort(mt.Key()).String()
				reg.declare(name, fmt.Sprintf("(declare-fun %s ((Array %s Bool)) Int)", name, keySort(mt.Key())))
				fam := "MD|" + mapFam(mt.Key(), mt.Elem())
				row := e.rowTerm(fam, []Sort{SInt, keySort(mt.Key())}, SBool, v.T)
				return Term{fmt.Sprintf("(%s %s)", name, row), SInt}
			}
		}
	}
	sfail("len of %T", a.V)
	return Term{}
}

func (e *Env) rowTerm(fam string, dims []Sort, elem Sort, row Term) string {
	var h *HeapVer
	snap := e.cur
	if e.inOld && e.old != nil {
		snap = e.old
	}
	if snap != nil {
		var ok bool
		if h, ok = snap.m[fam]; !ok {
			h = baseHeap(snap.epoch, fam, dims, elem)
		}
	} else {
		h = e.st.heap(fam, dims, elem)
	}
	return fmt.Sprintf("(select %s %s)", h.Name, row.S)
}

func (e *Env) call(x *Expr) TV {
	args := x.Args
	switch x.Name {
	case "len":
		return scInt(e.lenOf(e.eval(args[0])))
	case "local":
		// local("name"): the local variable of that name, even when a parameter of the same name exists
		if args[0].Op != "str" {
			sfail("local(\"name\")")
		}
		if e.frame == nil || e.calleeFn != nil || e.frame.fn != e.x.root {
			// a callee's postcondition about its own locals says nothing to the caller
			sfail("local() of another function")
		}
		n := *e
		n.localsOnly = true
		if len(args) > 1 && args[1].Op == "int" {
			n.localOrd = int(args[1].Int)
		}
		if tv, ok := n.ssaVar(args[0].Str); ok {
			return tv
		}
		if n.localOrd > 0 {
			// no value on this path: a phantom of the k-th variable's type
			k := 0
			for _, b := range e.frame.fn.Blocks {
				for _, in := range b.Instrs {
					if a, ok := in.(*ssa.Alloc); ok && a.Comment == args[0].Str {
						if k++; k == n.localOrd {
							el := a.Type().Underlying().(*types.Pointer).Elem()
							return TV{e.st.freshVal(el, "local_"+args[0].Str), el}
						}
					}
				}
			}
		}
		if tv, ok := n.phantomLocal(e.frame.fn, args[0].Str); ok {
			return tv
		}
		sfail("no local variable %s", args[0].Str)
	case "arrof":
		// identity of a slice's backing array (a reference)
		sv, ok := e.eval(args[0]).V.(SliceV)
		if !ok {
			sfail("arrof() needs a slice")
		}
		return scInt(sv.Arr)
	case "hasSuffix":
		return scBool(App(SBool, "str.suffixof", e.term(args[1]), e.term(args[0])))
	case "hasPrefix":
		return scBool(App(SBool, "str.prefixof", e.term(args[1]), e.term(args[0])))
	case "contains":
		return scBool(App(SBool, "str.contains", e.term(args[0]), e.term(args[1])))
	case "indexOf":
		return scInt(App(SInt, "str.indexof", e.term(args[0]), e.term(args[1]), IntLit(0)))
	case "substr":
		return scStr(App(SStr, "str.substr", e.term(args[0]), e.term(args[1]), e.term(args[2])))
	case "join":
		// strings.Join(s, sep): the same uninterpreted function the engine uses for the library call
		tv := e.eval(args[0])
		sv, ok := tv.V.(SliceV)
		if !ok {
			sfail("join() needs a []string")
		}
		reg.declare("sf_join", "(declare-fun sf_join ((Array Int String) Int String) String)")
		row := e.rowTerm("E|string|", []Sort{SInt, SInt}, SStr, sv.Arr)
		return scStr(Term{fmt.Sprintf("(sf_join %s %s %s)", row, sv.Len.S, e.term(args[1]).S), SStr})
	case "called":
		if args[0].Op != "anchor" {
			sfail("called(@anchor)")
		}
		return scBool(e.anchor(args[0]).Called)
	case "at":
		if args[0].Op != "anchor" {
			sfail("at(@anchor, e)")
		}
		a := e.anchor(args[0])
		n := *e
		n.cur = a.After
		n.inOld = false
		return n.eval(args[1])
	case "before":
		if args[0].Op != "anchor" {
			sfail("before(@anchor, e)")
		}
		a := e.anchor(args[0])
		n := *e
		n.cur = a.Before
		n.inOld = false
		return n.eval(args[1])
	case "arg":
		// arg(@anchor, k): k-th argument of the anchored call
		a := e.anchor(args[0])
		if args[1].Op != "int" || int(args[1].Int) >= len(a.Args) {
			sfail("arg(@anchor, k)")
		}
		return TV{a.Args[args[1].Int], a.ArgT[args[1].Int]}
	case "typeis":
		// typeis(x, "pkg.Type") — dynamic type of an interface value
		iv, ok := e.eval(args[0]).V.(IfaceV)
		if !ok || args[1].Op != "str" {
			sfail("typeis(iface, \"type\")")
		}
		t := e.x.eng.typeByName(args[1].Str)
		if t == nil {
			sfail("unknown type %s", args[1].Str)
		}
		return scBool(Eq(iv.Tag, reg.typeTag(t)))
	case "implements":
		// implements(x, "pkg.Iface") — the dynamic type of x implements the interface (what x.(Iface) tests)
		iv, ok := e.eval(args[0]).V.(IfaceV)
		if !ok || args[1].Op != "str" {
			sfail("implements(iface, \"type\")")
		}
		t := e.x.eng.typeByName(args[1].Str)
		if t == nil {
			sfail("unknown type %s", args[1].Str)
		}
		return scBool(implementsTerm(iv.Tag, t))
	case "unbox":
		iv, ok := e.eval(args[0]).V.(IfaceV)
		if !ok || args[1].Op != "str" {
			sfail("unbox(iface, \"type\")")
		}
		t := e.x.eng.typeByName(args[1].Str)
		if t == nil {
			sfail("unknown type %s", args[1].Str)
		}
		return TV{unbox(e.st, iv, t), t}
	case "ghostval":
		// ghostval("$name", ref): a ghost field read by reference
		if args[0].Op != "str" {
			sfail("ghostval(\"$name\", ref)")
		}
		srt, gt := e.x.eng.ghostSort(args[0].Str)
		return TV{Sc{e.load("X|"+args[0].Str, []Sort{SInt}, srt, []Term{e.term(args[1])})}, gt}
	case "unixTime":
		// time.Unix(sec, 0) as integer nanoseconds
		return scInt(Add(unixEpochT, App(SInt, "*", e.term(args[0]), IntLit(1000000000))))
	case "visited":
		if e.visited == "" {
			sfail("visited(k) outside a map-range loop")
		}
		return scBool(Term{fmt.Sprintf("(select %s %s)", e.visited, e.term(args[0]).S), SBool})
	case "fnid":
		// identity of a package-level function used as a value
		if args[0].Op != "str" || e.pkg == nil {
			sfail("fnid(\"name\")")
		}
		sp := e.x.eng.prog.Package(e.pkg)
		if sp == nil || sp.Func(args[0].Str) == nil {
			sfail("fnid: no function %s", args[0].Str)
		}
		return scInt(closID(e.x.eng.fnVal(sp.Func(args[0].Str))))
	case "isnil":
		return scBool(e.specEq(e.eval(args[0]), TV{Sc{IntLit(0)}, types.Typ[types.UntypedNil]}))
	case "spawned":
		// number of go statements executed on this path
		return TV{Sc{e.st.ghostInt("$spawns")}, types.Typ[types.Int]}
	case "selected":
		// the case chosen by the most recent select (-1: none executed / default)
		if t, ok := e.st.ghost["$selected"]; ok && t.S != "" {
			return TV{Sc{t}, types.Typ[types.Int]}
		}
		return TV{Sc{IntLit(-1)}, types.Typ[types.Int]}
	case "held":
		return scBool(BoolLit(e.st.held[e.lockKey(args[0])]))
	case "locked":
		// value of e when the (most recent) lock was acquired
		snap := e.lockedSnap
		if snap == nil {
			snap = e.st.lastLock
		}
		if snap == nil {
			sfail("locked(e) without a lock acquisition on this path")
		}
		n := *e
		n.cur = snap
		n.inOld = false
		return n.eval(args[0])
	case "apply":
		f := e.term(args[0])
		ts := []Term{f}
		for _, a := range args[1:] {
			ts = append(ts, e.st.flatten(e.eval(a).V)...)
		}
		return scBool(applyUF(SBool, ts))
	case "applyInt":
		f := e.term(args[0])
		ts := []Term{f}
		for _, a := range args[1:] {
			ts = append(ts, e.st.flatten(e.eval(a).V)...)
		}
		return scInt(applyUF(SInt, ts))
	case "allocated":
		r := e.refOf(e.eval(args[0]))
		return scBool(Term{fmt.Sprintf("(select %s %s)", e.st.alloc0.Name, r.S), SBool})
	}
	if f, ok := e.x.eng.db.Fns[x.Name]; ok {
		return e.specFn(f, x)
	}
	sfail("unknown spec function %s", x.Name)
	return TV{}
}

func specSort(ty string) (Sort, types.Type) {
	switch ty {
	case "int", "time", "duration", "ref":
		return SInt, types.Typ[types.Int]
	case "bool":
		return SBool, types.Typ[types.Bool]
	case "string", "bytes":
		return SStr, types.Typ[types.String]
	case "header":
		return SInt, types.NewMap(types.Typ[types.String], types.NewSlice(types.Typ[types.String]))
	}
	return SInt, nil
}

func (e *Env) specFn(f *SpecFn, x *Expr) TV {
	if len(x.Args) != len(f.Params) {
		sfail("spec function %s expects %d arguments", f.Name, len(f.Params))
	}
	if f.Body != nil {
		if e.depth > 20 {
			sfail("spec function recursion too deep: %s", f.Name)
		}
		n := e.derive(e.st)
		n.depth = e.depth + 1
		for i, p := range f.Params {
			n.vars[p] = e.eval(x.Args[i])
		}
		return n.eval(f.Body)
	}
	var args []Term
	for i := range f.Params {
		tv := e.eval(x.Args[i])
		ls := e.st.flatten(tv.V)
		if f.PTypes[i] == "any" {
			args = append(args, ls...)
			continue
		}
		if len(ls) != 1 {
			if iv, ok := tv.V.(IfaceV); ok && f.PTypes[i] == "iface" {
				args = append(args, iv.Tag, iv.Pay)
				continue
			}
			sfail("argument %d of %s is not scalar", i, f.Name)
		}
		args = append(args, ls[0])
	}
	rs, rt := specSort(f.Ret)
	t := reg.uf("sf"+mangle(f.Name)[1:], rs, args...)
	if strings.HasPrefix(f.Ret, "*") {
		if gt := e.x.eng.typeByName(f.Ret); gt != nil {
			return TV{PtrV{ObjAddr{t, gt.Underlying().(*types.Pointer).Elem()}}, gt}
		}
		sfail("spec function %s: unknown result type %s", f.Name, f.Ret)
	}
	return TV{Sc{t}, rt}
}

// lockKey names the mutex denoted by an expression of the form x.mutexField.
func (e *Env) lockKey(x *Expr) string {
	if x.Op != "sel" {
		sfail("held(x.mutex)")
	}
	base := e.eval(x.Args[0])
	return e.refOf(base).S + "." + x.Name
}

func (e *Env) ssaVarMaybe(name string) (TV, bool) {
	if e.frame == nil {
		return TV{}, false
	}
	return e.ssaVar(name)
}

// phantomLocal: a local variable of fn that has no value on this path (not yet allocated, or the
// function is a callee seen through its contract): an unconstrained value of its type.
func (e *Env) phantomLocal(fn *ssa.Function, name string) (TV, bool) {
	for _, b := range fn.Blocks {
		for _, in := range b.Instrs {
			if d, ok := in.(*ssa.DebugRef); ok && !d.IsAddr && isLocalVar(d) {
				if id, ok := d.Expr.(*ast.Ident); ok && id.Name == name {
					// a single-assignment local that has no value on this path
					key := "phantom:" + fn.String() + ":" + name
					if e.calleeAnch != nil {
						if an, ok := e.calleeAnch[key]; ok {
							return TV{an.Rets[0], d.X.Type()}, true
						}
					}
					v := e.st.freshVal(d.X.Type(), "local_"+name)
					if e.calleeAnch != nil {
						e.calleeAnch[key] = &Anchor{Rets: []Val{v}}
					}
					return TV{v, d.X.Type()}, true
				}
			}
			if a, ok := in.(*ssa.Alloc); ok && a.Comment == name {
				el := a.Type().Underlying().(*types.Pointer).Elem()
				key := "phantom:" + fn.String() + ":" + name
				if e.calleeAnch != nil {
					if an, ok := e.calleeAnch[key]; ok {
						return TV{an.Rets[0], el}, true
					}
				}
				v := e.st.freshVal(el, "local_"+name)
				if e.calleeAnch != nil {
					e.calleeAnch[key] = &Anchor{Rets: []Val{v}}
				}
				return TV{v, el}, true
			}
		}
	}
	return TV{}, false
}

// isLocalVar: the debug reference names a variable declared inside a function (not a package-level
// variable, constant, function or field).
func isLocalVar(d *ssa.DebugRef) bool {
	v, ok := d.Object().(*types.Var)
	if !ok || v.IsField() || v.Pkg() == nil {
		return false
	}
	return v.Parent() != v.Pkg().Scope()
}
