package main

// templateChecks: C20 type/provenance obligations (filled in later).
func templateChecks(eng *Engine, key string) []*Obligation { return nil }
