package main

import (
	"encoding/json"
	"path/filepath"
	"os"
	"fmt"
	"go/constant"
	"go/types"
	"sort"
	"strings"
	"text/template/parse"

	"golang.org/x/tools/go/ssa"
	"golang.org/x/tools/go/ssa/ssautil"
)

// C20: type- and provenance-level obligations. What they establish is the precondition of the
// (assumed) library contract "html/template escapes untrusted-typed data for the context it appears in":
// the pages are html/template templates, no value of a trusted type (template.HTML, JS, CSS, URL, ...)
// and no interface-typed value reaches them, no custom template function is registered, the template
// sources use only field access and the escaper-safe builtins, and JSON bodies are produced by encoding/json.

var trustedTemplateTypes = map[string]bool{"HTML": true, "HTMLAttr": true, "JS": true, "JSStr": true, "CSS": true, "URL": true, "Srcset": true}

func templateChecks(eng *Engine, key string) []*Obligation {
	var out []*Obligation
	pkgs := []string{modPrefix + "internal/proxy", modPrefix + "internal/auth", modPrefix + "internal/pkg/templates"}
	inScope := func(fn *ssa.Function) bool {
		p := fnPkgPath(fn)
		for _, q := range pkgs {
			if p == q {
				return true
			}
		}
		return false
	}
	var fns []*ssa.Function
	for fn := range ssautil.AllFunctions(eng.prog) {
		if inScope(fn) && fn.Blocks != nil {
			fns = append(fns, fn)
		}
	}
	sort.Slice(fns, func(i, j int) bool { return fns[i].String() < fns[j].String() })
	props := []string{"C20"}

	// (1) no text/template import in the packages that render pages
	for _, pp := range pkgs {
		p := eng.allPkgs[pp]
		if p == nil {
			continue
		}
		bad := ""
		for imp := range p.Imports {
			if imp == "text/template" {
				bad = imp
			}
		}
		out = append(out, mkObT(shortPkg(pp)+"/templates[no-text-template]", "package "+shortPkg(pp)+" does not import text/template", bad == "", "imports "+bad, props))
	}

	// (2) every ExecuteTemplate call: receiver is html/template (or the sso wrapper), data is inert
	nExec := 0
	for _, fn := range fns {
		nFn := 0
		for _, b := range fn.Blocks {
			for _, in := range b.Instrs {
				c, ok := in.(ssa.CallInstruction)
				if !ok {
					continue
				}
				cc := c.Common()
				name := callSiteName(cc)
				if name == "Funcs" {
					if sc := cc.StaticCallee(); sc != nil && strings.Contains(sc.String(), "template.Template") {
						out = append(out, mkObT(shortFn(fn)+"/templates[no-custom-funcs]", "no custom template functions are registered", false, "call of "+sc.String(), props))
					}
				}
				if name != "ExecuteTemplate" {
					continue
				}
				nExec++
				nFn++
				var recvT types.Type
				var data ssa.Value
				if cc.IsInvoke() {
					recvT = cc.Value.Type()
					data = cc.Args[2]
				} else {
					recvT = cc.Args[0].Type()
					data = cc.Args[3]
				}
				rt := types.TypeString(recvT, nil)
				okRecv := rt == "*html/template.Template" || strings.HasSuffix(rt, "internal/pkg/templates.Template") || strings.HasSuffix(rt, "internal/pkg/templates.HTMLTemplate")
				out = append(out, mkObT(fmt.Sprintf("%s/templates[html-template#%d]", shortFn(fn), nFn), "ExecuteTemplate is html/template's (or the sso wrapper around it)", okRecv, "receiver type "+rt, props))
				// static type of the data before it is boxed
				dt := data.Type()
				if mi, ok := data.(*ssa.MakeInterface); ok {
					dt = mi.X.Type()
				}
				why := inertType(dt, map[types.Type]bool{})
				if _, isIface := dt.Underlying().(*types.Interface); isIface && strings.HasSuffix(shortFn(fn), "HTMLTemplate).ExecuteTemplate") {
					why = "" // the wrapper forwards its caller's data; callers are checked at their own call sites
				}
				out = append(out, mkObT(fmt.Sprintf("%s/templates[inert-data#%d]", shortFn(fn), nFn), "template data has only string/number/bool (and slices of those) fields: no trusted-typed or interface-typed value", why == "", "data type "+types.TypeString(dt, nil)+": "+why, props))
			}
		}
	}
	out = append(out, mkObT("templates[render-sites-found]", "at least one ExecuteTemplate call site was found (vacuity guard)", nExec > 0, fmt.Sprintf("%d sites", nExec), props))

	// (3) the template sources themselves
	nSrc := 0
	for _, fn := range fns {
		nFn := 0
		for _, b := range fn.Blocks {
			for _, in := range b.Instrs {
				c, ok := in.(*ssa.Call)
				if !ok || callSiteName(&c.Call) != "Parse" {
					continue
				}
				sc := c.Call.StaticCallee()
				if sc == nil || !strings.Contains(sc.String(), "html/template.Template") {
					continue
				}
				k, ok := c.Call.Args[1].(*ssa.Const)
				if !ok || k.Value == nil || k.Value.Kind() != constant.String {
					out = append(out, mkObT(fmt.Sprintf("%s/templates[constant-source#%d]", shortFn(fn), nFn+1), "template source is a string constant", false, "non-constant template source", props))
					continue
				}
				nSrc++
				nFn++
				src := constant.StringVal(k.Value)
				why := checkTemplateSource(src)
				out = append(out, mkObT(fmt.Sprintf("%s/templates[plain-source#%d]", shortFn(fn), nFn), "template source uses only field access and the builtins if/range/template/eq/ne/gt/len/index", why == "", why, props))
			}
		}
	}
	out = append(out, mkObT("templates[sources-found]", "template sources were found (vacuity guard)", nSrc > 0, fmt.Sprintf("%d sources", nSrc), props))

	// (4) JSON bodies come from encoding/json
	for _, short := range []string{"(*proxy.OAuthProxy).XHRError", "(*auth.Authenticator).Redeem", "(*auth.Authenticator).Refresh", "(*auth.Authenticator).GetProfile"} {
		fn := eng.fnByShort(short)
		if fn == nil {
			out = append(out, mkObT(short+"/json[function]", "function exists", false, "missing", props))
			continue
		}
		n := 0
		bad := ""
		for _, b := range fn.Blocks {
			for _, in := range b.Instrs {
				c, ok := in.(*ssa.Call)
				if !ok || !c.Call.IsInvoke() || c.Call.Method.Name() != "Write" {
					continue
				}
				n++
				if !fromJSONMarshal(c.Call.Args[0]) {
					bad = c.Call.Args[0].String()
				}
			}
		}
		out = append(out, mkObT(short+"/json[body-from-encoding-json]", "every body written is the result of json.Marshal", n > 0 && bad == "", fmt.Sprintf("%d writes; offending: %s", n, bad), props))
	}
	// (5) bytes reach a response only at listed sites: a direct Write / Fprint* / WriteString on a ResponseWriter
	// (http.Error is not one: it answers text/plain with nosniff) happens only in the functions listed in
	// spec/response_writers.json — each of which is covered by (2)-(4) or writes constant/encoded bytes
	allowed := map[string]bool{}
	if b, err := os.ReadFile(filepath.Join(verifDir(), "spec", "response_writers.json")); err == nil {
		var lst []string
		if json.Unmarshal(b, &lst) == nil {
			for _, n := range lst {
				allowed[n] = true
			}
		}
	}
	isRW := func(v ssa.Value) bool {
		for i := 0; i < 4; i++ {
			if types.TypeString(v.Type(), nil) == "net/http.ResponseWriter" {
				return true
			}
			switch x := v.(type) {
			case *ssa.ChangeInterface:
				v = x.X
			case *ssa.MakeInterface:
				v = x.X
			default:
				return false
			}
		}
		return false
	}
	nW := 0
	sitesByFn := map[string]int{}
	for _, fn := range fns {
		for _, b := range fn.Blocks {
			for _, in := range b.Instrs {
				c, ok := in.(ssa.CallInstruction)
				if !ok {
					continue
				}
				cc := c.Common()
				site := false
				if cc.IsInvoke() {
					if (cc.Method.Name() == "Write" || cc.Method.Name() == "WriteString") && isRW(cc.Value) {
						site = true
					}
				} else if sc := cc.StaticCallee(); sc != nil && len(cc.Args) > 0 {
					switch sc.String() {
					case "fmt.Fprintf", "fmt.Fprint", "fmt.Fprintln", "io.WriteString", "io.Copy":
						site = isRW(cc.Args[0])
					}
				}
				if site {
					nW++
					sitesByFn[shortFn(fn)]++
				}
			}
		}
	}
	var wfns []string
	for n := range sitesByFn {
		wfns = append(wfns, n)
	}
	sort.Strings(wfns)
	for _, n := range wfns {
		out = append(out, mkObT(n+"/templates[listed-response-writer]", "direct writes to a response happen only in listed functions", allowed[n], fmt.Sprintf("%d direct write(s) to a ResponseWriter in a function that is not in spec/response_writers.json", sitesByFn[n]), props))
	}
	out = append(out, mkObT("templates[response-writers-found]", "direct response writes were found (vacuity guard)", nW > 0, fmt.Sprintf("%d sites", nW), props))

	// (6) what is JSON-encoded into a response is inert data: the static type handed to writeJSONResponse /
	// json.Marshal in the response paths has only string/number/bool fields (no interface{}, no json.RawMessage)
	for _, fn := range fns {
		k := 0
		for _, b := range fn.Blocks {
			for _, in := range b.Instrs {
				c, ok := in.(*ssa.Call)
				if !ok {
					continue
				}
				sc := c.Call.StaticCallee()
				if sc == nil {
					continue
				}
				var data ssa.Value
				switch {
				case shortFn(sc) == "auth.writeJSONResponse" && len(c.Call.Args) == 3:
					data = c.Call.Args[2]
				case (sc.String() == "encoding/json.Marshal" || sc.String() == "encoding/json.MarshalIndent") && (strings.HasSuffix(shortFn(fn), ".XHRError") || strings.HasPrefix(shortFn(fn), "(*auth.Authenticator).")):
					data = c.Call.Args[0]
				}
				if data == nil {
					continue
				}
				k++
				dt := data.Type()
				if mi, ok := data.(*ssa.MakeInterface); ok {
					dt = mi.X.Type()
				}
				why := jsonInert(dt, map[types.Type]bool{})
				out = append(out, mkObT(fmt.Sprintf("%s/json[inert-data#%d]", shortFn(fn), k), "JSON-encoded response data carries no pre-encoded JSON (json.RawMessage) and no value of unknown type (interface{}): every string in it is escaped by encoding/json", why == "", "data type "+types.TypeString(dt, nil)+": "+why, props))
			}
		}
	}
	if fn := eng.fnByShort("auth.writeJSONResponse"); fn != nil {
		enc, other := 0, 0
		for _, b := range fn.Blocks {
			for _, in := range b.Instrs {
				if c, ok := in.(*ssa.Call); ok {
					if sc := c.Call.StaticCallee(); sc != nil {
						switch sc.String() {
						case "(*encoding/json.Encoder).Encode":
							enc++
						case "fmt.Fprintf", "fmt.Fprint", "fmt.Fprintln":
							other++
						}
					}
					if c.Call.IsInvoke() && c.Call.Method.Name() == "Write" {
						other++
					}
				}
			}
		}
		out = append(out, mkObT("auth.writeJSONResponse/json[body-from-encoding-json]", "the JSON body is written by json.Encoder.Encode (or, on its error, the encoder's own error text)", enc == 1 && other == 0, fmt.Sprintf("Encode calls %d, other writes %d", enc, other), props))
	}
	return out
}

func shortPkg(p string) string { return strings.TrimPrefix(p, modPrefix+"internal/") }

func mkObT(name, clause string, ok bool, detail string, props []string) *Obligation {
	o := mkOb(name, "types", clause, ok, detail, props)
	if ok {
		o.Solvers = map[string]int{"go/types": 1}
		o.VCs[0].Solver = "go/types"
	}
	return o
}

// inertType explains why a type may carry trusted or dynamic content; "" if it cannot.
func inertType(t types.Type, seen map[types.Type]bool) string {
	if seen[t] {
		return ""
	}
	seen[t] = true
	if n, ok := t.(*types.Named); ok && n.Obj().Pkg() != nil {
		if n.Obj().Pkg().Path() == "html/template" && trustedTemplateTypes[n.Obj().Name()] {
			return "trusted type template." + n.Obj().Name()
		}
	}
	switch u := t.Underlying().(type) {
	case *types.Basic:
		return ""
	case *types.Pointer:
		return inertType(u.Elem(), seen)
	case *types.Slice:
		return inertType(u.Elem(), seen)
	case *types.Array:
		return inertType(u.Elem(), seen)
	case *types.Map:
		if w := inertType(u.Key(), seen); w != "" {
			return w
		}
		return inertType(u.Elem(), seen)
	case *types.Struct:
		for i := 0; i < u.NumFields(); i++ {
			if w := inertType(u.Field(i).Type(), seen); w != "" {
				return "field " + u.Field(i).Name() + ": " + w
			}
		}
		return ""
	case *types.Interface:
		return "interface-typed value (its dynamic type could be a trusted template type)"
	}
	return "type " + t.String()
}

func fromJSONMarshal(v ssa.Value) bool {
	switch x := v.(type) {
	case *ssa.Extract:
		if c, ok := x.Tuple.(*ssa.Call); ok && x.Index == 0 {
			if sc := c.Call.StaticCallee(); sc != nil {
				return sc.String() == "encoding/json.Marshal" || sc.String() == "encoding/json.MarshalIndent"
			}
		}
	case *ssa.UnOp:
		// a field holding pre-marshalled JSON (publicCertsJSON) is not accepted here
		return false
	case *ssa.Phi:
		for _, e := range x.Edges {
			if !fromJSONMarshal(e) {
				return false
			}
		}
		return true
	}
	return false
}

var allowedTemplateFuncs = map[string]bool{"eq": true, "ne": true, "gt": true, "lt": true, "ge": true, "le": true, "len": true, "index": true, "not": true, "and": true, "or": true}

func checkTemplateSource(src string) string {
	trees, err := parse.Parse("t", src, "{{", "}}", map[string]interface{}{"eq": 1, "ne": 1, "gt": 1, "lt": 1, "ge": 1, "le": 1, "len": 1, "index": 1, "not": 1, "and": 1, "or": 1,
		"html": 1, "js": 1, "urlquery": 1, "print": 1, "printf": 1, "println": 1, "call": 1, "slice": 1})
	if err != nil {
		return "template does not parse: " + err.Error()
	}
	var why string
	var walk func(n parse.Node)
	walk = func(n parse.Node) {
		if n == nil || why != "" {
			return
		}
		switch x := n.(type) {
		case *parse.ListNode:
			if x != nil {
				for _, c := range x.Nodes {
					walk(c)
				}
			}
		case *parse.ActionNode:
			walk(x.Pipe)
		case *parse.PipeNode:
			if x != nil {
				for _, c := range x.Cmds {
					walk(c)
				}
			}
		case *parse.CommandNode:
			for _, a := range x.Args {
				walk(a)
			}
		case *parse.IdentifierNode:
			if !allowedTemplateFuncs[x.Ident] {
				why = "template function " + x.Ident
			}
		case *parse.IfNode:
			walk(x.Pipe)
			walk(x.List)
			walk(x.ElseList)
		case *parse.RangeNode:
			walk(x.Pipe)
			walk(x.List)
			walk(x.ElseList)
		case *parse.WithNode:
			walk(x.Pipe)
			walk(x.List)
			walk(x.ElseList)
		case *parse.TemplateNode:
			walk(x.Pipe)
		case *parse.TextNode, *parse.FieldNode, *parse.VariableNode, *parse.DotNode, *parse.StringNode, *parse.NumberNode, *parse.BoolNode, *parse.NilNode, *parse.ChainNode, *parse.CommentNode:
		default:
			why = fmt.Sprintf("template construct %T", n)
		}
	}
	for _, t := range trees {
		if t.Root != nil {
			walk(t.Root)
		}
	}
	return why
}

// jsonInert explains why a value of type t could put bytes into a JSON document that encoding/json does not
// escape: a json.RawMessage, or an empty interface (which could hold one); "" if it cannot.
func jsonInert(t types.Type, seen map[types.Type]bool) string {
	if seen[t] {
		return ""
	}
	seen[t] = true
	if n, ok := t.(*types.Named); ok && n.Obj().Pkg() != nil && n.Obj().Pkg().Path() == "encoding/json" && n.Obj().Name() == "RawMessage" {
		return "json.RawMessage (pre-encoded JSON is copied verbatim)"
	}
	switch u := t.Underlying().(type) {
	case *types.Pointer:
		return jsonInert(u.Elem(), seen)
	case *types.Slice:
		return jsonInert(u.Elem(), seen)
	case *types.Array:
		return jsonInert(u.Elem(), seen)
	case *types.Map:
		return jsonInert(u.Elem(), seen)
	case *types.Struct:
		for i := 0; i < u.NumFields(); i++ {
			if w := jsonInert(u.Field(i).Type(), seen); w != "" {
				return "field " + u.Field(i).Name() + ": " + w
			}
		}
	case *types.Interface:
		if u.NumMethods() == 0 {
			return "interface{} (could hold a json.RawMessage or a custom marshaler)"
		}
	}
	return ""
}
