package main

import (
	"encoding/json"
	"fmt"
	"os"
	"path/filepath"
	"sort"
	"strings"
)

func typeObligations(eng *Engine, cfg *PropCfg, prop string) []*Obligation {
	var out []*Obligation
	for _, name := range cfg.TypeChecks {
		out = append(out, runTypeCheck(eng, name)...)
	}
	return out
}

// writeReplay writes the replay file for a failed obligation and tries to
// confirm the counterexample against the real code where an adapter exists.
func writeReplay(eng *Engine, outDir, prop string, o *Obligation) string {
	dir := filepath.Join(outDir, "replay")
	os.MkdirAll(dir, 0o755)
	name := mangle(o.Name)
	if len(name) > 120 {
		name = name[:120]
	}
	path := filepath.Join(dir, name+".json")
	type vcOut struct {
		Verdict string `json:"verdict"`
		Solver  string `json:"solver"`
		Trace   string `json:"path"`
		SMTFile string `json:"smt_file,omitempty"`
		Output  string `json:"solver_output"`
	}
	rec := map[string]interface{}{
		"property":   prop,
		"obligation": o.Name,
		"kind":       o.Kind,
		"clause":     o.Clause,
	}
	var vs []vcOut
	for _, vc := range o.Failed {
		vs = append(vs, vcOut{vc.Verdict, vc.Solver, vc.Trace, vc.File, firstLines(vc.Raw, 400)})
	}
	rec["failed_vcs"] = vs
	confirmed, detail := tryReplay(eng, outDir, prop, o)
	o.replayed = confirmed
	rec["replayed_against_real_code"] = confirmed
	rec["replay_detail"] = detail
	if !confirmed {
		rec["note"] = "no-failing-input-found: the failed obligation is reported because it discharges on the unchanged tree; see solver_output for the model or the reason the solver gave"
	}
	b, _ := json.MarshalIndent(rec, "", " ")
	os.WriteFile(path, b, 0o644)
	return path
}

func writeEvidence(vd, prop, tier string, seed int, cfg *PropCfg, results []*FnResult, obs []*Obligation, wall float64, note string, known []string) {
	vd = outBase()
	os.MkdirAll(filepath.Join(vd, "evidence"), 0o755)
	nOb, nDis := 0, 0
	var boundedWitness []string
	byBackend := map[string]int{}
	var solverTime, maxTime float64
	var samples []interface{}
	var failed []string
	nvc := 0
	knownSet := map[string]bool{}
	for _, k := range known {
		knownSet[k] = true
	}
	for _, o := range obs {
		if knownSet[o.Name] {
			continue
		}
		if o.Kind == "assumed-contract" && o.Status == "discharged" {
			// a bounded witness that did not refute an assumed library contract: recorded, never counted as proved
			boundedWitness = append(boundedWitness, o.Name+": "+o.Clause)
			continue
		}
		nOb++
		if o.Status == "discharged" {
			nDis++
		} else {
			failed = append(failed, o.Name)
		}
		nvc += len(o.VCs)
		for s, n := range o.Solvers {
			byBackend[s] += n
		}
		solverTime += o.Time
		if o.MaxTime > maxTime {
			maxTime = o.MaxTime
		}
	}
	// a few obligations written out
	step := 1
	if len(obs) > 8 {
		step = len(obs) / 8
	}
	for i := 0; i < len(obs); i += step {
		o := obs[i]
		samples = append(samples, map[string]interface{}{"obligation": o.Name, "clause": o.Clause, "paths": len(o.VCs), "status": o.Status, "backends": o.Solvers})
	}
	var fuc []map[string]interface{}
	assume := map[string]bool{}
	var inlined, unknown []string
	for _, r := range results {
		fuc = append(fuc, map[string]interface{}{"function": r.Fn, "contract_file": r.File, "paths": r.Paths, "vcs": len(r.VCs)})
		for _, l := range r.Libs {
			assume[l] = true
		}
		for _, l := range r.Inlined {
			inlined = append(inlined, r.Fn+" <- "+l)
		}
		for _, l := range r.Unknown {
			unknown = append(unknown, r.Fn+": "+l)
		}
	}
	var assumptions []string
	for a := range assume {
		assumptions = append(assumptions, a)
	}
	sort.Strings(assumptions)
	trusted := []string{
		"golang.org/x/tools v0.29.0 go/packages + go/ssa as a faithful reading of the Go source (not the compiler's SSA)",
		"ssovc VC generator (/verif/cmd/ssovc)",
		"SMT solvers: z3-new 5.1.0, cvc5 1.0, z3 4.8.12",
		"integers are mathematical (no overflow); time.Time/time.Duration are integer nanoseconds",
		"append allocates a fresh backing array (no cap aliasing); []byte is an immutable string value",
		"panics end a path (recover blocks are not executed); goroutine bodies started with `go` are not executed in the spawning function",
	}
	if cfg != nil {
		assumptions = append(assumptions, cfg.Assumptions...)
		for _, n := range cfg.NotDecided {
			assumptions = append(assumptions, "not decided: "+n)
		}
	}
	cov := map[string]interface{}{
		"obligations":              nOb,
		"discharged":               nDis,
		"checker_cmd":              fmt.Sprintf("bin/ssovc check -property %s -tier %s", prop, tier),
		"trusted_base":             trusted,
		"vcs":                      nvc,
		"by_backend":               byBackend,
		"solver_time_s":            map[string]float64{"sum": round2(solverTime), "max": round2(maxTime)},
		"functions_under_contract": fuc,
		"inlined_callees":          inlined,
		"calls_without_contract":   unknown,
		"failed":                   failed,
		"known_findings":           known,
		"samples":                  samples,
		"dropped_by_extraction":    []string{"recover blocks", "goroutine bodies at `go`", "channel operations (functions containing them are outside the subset)", "machine integer width", "slice capacity aliasing"},
	}
	if cfg != nil {
		cov["bounded_standins"] = append(append([]string{}, cfg.Bounded...), boundedWitness...)
	}
	if auditRecords != nil {
		cov["assumption_audits_bounded"] = auditRecords
	}
	if replayRegression != nil {
		cov["witness_replays"] = replayRegression
	}
	if note != "" {
		cov["note"] = note
	}
	level := "proof"
	ev := map[string]interface{}{
		"property_id": prop,
		"tier":        tier,
		"seed":        seed,
		"level":       level,
		"coverage":    cov,
		"assumptions": assumptions,
		"wall_s":      round2(wall),
		"violations":  len(failed),
	}
	if nOb == 0 {
		// keep the file schema-valid even when nothing could be generated
		cov["obligations"] = 0
		cov["discharged"] = 0
		ev["level"] = "other"
		cov["explanation"] = "no obligations: " + note
	}
	b, _ := json.MarshalIndent(ev, "", " ")
	os.WriteFile(filepath.Join(vd, "evidence", prop+".json"), b, 0o644)
}

func round2(f float64) float64 { return float64(int(f*100+0.5)) / 100 }

var _ = strings.Join
