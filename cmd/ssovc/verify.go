package main

import (
	"fmt"
	"os"
	"go/types"
	"sort"
	"strings"

	"golang.org/x/tools/go/ssa"
)

// FnResult is what verifying one function under contract produced.
type FnResult struct {
	Fn       string
	File     string
	VCs      []*VC
	Paths    int
	Inlined  []string
	Libs     []string
	Unknown  []string
	Err      string // outside-subset / contract error (→ UNDECIDED)
	Contract *Contract
}

// verifyFunction generates the verification conditions of fn twice and keeps the second result: which heap
// families hold references is learnt while families are first used (refFams), and the heap-wide invariants for
// a family are stated when it first appears on a path — the first pass makes that knowledge complete, so every
// path of the second pass is generated under the same invariants regardless of exploration order.
func (e *Engine) verifyFunction(fn *ssa.Function, con *Contract, pathLimit int) (res *FnResult) {
	if fn.Blocks != nil && !(con != nil && con.Trusted) {
		e.verifyFunctionRestartable(fn, con, pathLimit)
	}
	return e.verifyFunctionRestartable(fn, con, pathLimit)
}

func (e *Engine) verifyFunctionRestartable(fn *ssa.Function, con *Contract, pathLimit int) (res *FnResult) {
	for tries := 0; ; tries++ {
		again := false
		func() {
			defer func() {
				if r := recover(); r != nil {
					if _, ok := r.(restartWithoutInlining); ok && tries < 16 {
						again = true
						return
					}
					panic(r)
				}
			}()
			res = e.verifyFunctionOnce(fn, con, pathLimit)
		}()
		if !again {
			return res
		}
	}
}

func (e *Engine) verifyFunctionOnce(fn *ssa.Function, con *Contract, pathLimit int) (res *FnResult) {
	res = &FnResult{Fn: shortFn(fn), Contract: con}
	if con != nil {
		res.File = con.File
	}
	x := &Exec{eng: e, root: fn, con: con, limit: pathLimit}
	curExec = x
	defer func() {
		if r := recover(); r != nil {
			switch er := r.(type) {
			case unsupported:
				res.Err = er.Error()
			case specError:
				res.Err = er.Error()
			default:
				panic(r)
			}
		}
		res.VCs = x.vcs
		res.Paths = x.paths
		res.Inlined = keys(x.inl)
		res.Libs = keys(x.libs)
		res.Unknown = keys(x.unk)
	}()
	if fn.Blocks == nil {
		bail("function %s has no body", fn)
	}
	if con != nil && con.Trusted {
		return res
	}
	st := &State{heaps: map[string]*HeapVer{}, anchors: map[string]*Anchor{}, callCount: map[string]int{}, held: map[string]bool{},
		lockSnap: map[string]*HeapSnap{}, ghost: map[string]Term{}, epoch: "0"}
	st.alloc = baseHeap("0", "alloc", []Sort{SInt}, SBool)
	st.alloc0 = st.alloc
	st.epochAlloc = st.alloc
	reg.declare("u_clock0", "(declare-const u_clock0 Int)")
	st.clock = Term{"u_clock0", SInt}
	st.clock0 = st.clock
	st.assume(Cmp(">", st.clock, IntLit(0)))
	st.assume(Not(Term{fmt.Sprintf("(select %s 0)", st.alloc.Name), SBool})) // nil is not an object
	fr := &Frame{fn: fn, vals: map[ssa.Value]Val{}, block: fn.Blocks[0], visited: map[*ssa.BasicBlock]bool{}}
	st.stack = []*Frame{fr}
	env := &Env{x: x, st: st, vars: map[string]TV{}, lets: map[string]*Expr{}, frame: fr}
	env.old = &HeapSnap{m: map[string]*HeapVer{}, epoch: "0", clock: st.clock0}
	if fn.Pkg != nil {
		env.pkg = fn.Pkg.Pkg
	} else if con != nil {
		env.pkg = e.typesPkg(con.Pkg)
	}
	if env.pkg == nil {
		p := fn
		for p.Parent() != nil {
			p = p.Parent()
		}
		if p.Pkg != nil {
			env.pkg = p.Pkg.Pkg
		}
	}
	// parameters
	for i, p := range fn.Params {
		v := st.freshVal(p.Type(), "in_"+p.Name())
		st.assumeAllocated(v)
		fr.vals[p] = v
		env.vars[p.Name()] = TV{v, p.Type()}
		if con != nil {
			k := i
			if fn.Signature.Recv() != nil {
				if i == 0 {
					if con.Recv != "" {
						env.vars[con.Recv] = TV{v, p.Type()}
					}
					env.vars["this"] = TV{v, p.Type()}
					continue
				}
				k = i - 1
			}
			if k < len(con.Params) && con.Params[k] != "_" && con.Params[k] != "" {
				env.vars[con.Params[k]] = TV{v, p.Type()}
			}
		}
	}
	for _, fv := range fn.FreeVars {
		v := st.freshVal(fv.Type(), "fv_"+fv.Name())
		st.assumeAllocated(v)
		fr.vals[fv] = v
	}
	x.env0 = env
	if con != nil {
		nl := len(e.loops(fn).headers)
		// an invariant for a loop the function no longer has (the loop was removed or moved into another function):
		// the obligation that discharged on the unchanged tree can no longer be established — a failed obligation,
		// like an invariant that names a variable the loop no longer has
		cnt := map[int]int{}
		for _, cl := range con.Clauses {
			if cl.Kind != "invariant" {
				continue
			}
			cnt[cl.Loop]++
			if cl.Loop > nl {
				name := cl.Name
				if name == "" {
					name = fmt.Sprintf("%d", cnt[cl.Loop])
				}
				x.emit(st, "invariant-entry", fmt.Sprintf("loop%d.%s", cl.Loop, name), cl.Text+fmt.Sprintf("   [cannot be established: %s has %d loop(s), the contract names loop %d]", fn.Name(), nl, cl.Loop), cl.Props, TFalse)
			}
		}
		// Slice capacity is not modelled: append is a copy into a new backing array. That is wrong exactly when the
		// appended-to slice is a bounded re-slice x[:k] of memory this function did not allocate (the append then
		// writes into x's array, in place). Such an append is outside what the frame obligations can vouch for.
		for _, site := range appendsInPlace(fn) {
			x.emit(st, "frame", "append-in-place", "append never extends a re-slice of a backing array this function did not allocate (slice capacity is not modelled; such an append overwrites the caller's elements in place): "+site, nil, TFalse)
		}
		for _, cl := range con.Clauses {
			if cl.Kind == "let" {
				env.lets[cl.LetVar] = cl.E
			}
		}
		var reqs []Term
		st.heldEntry = map[string]bool{}
		for _, cl := range con.Clauses {
			if cl.Kind == "requires" && cl.E.Op == "call" && cl.E.Name == "held" {
				k := env.lockKey(cl.E.Args[0])
				st.held[k] = true
				st.heldEntry[k] = true
			}
		}
		for _, cl := range con.Clauses {
			if cl.Kind == "requires" {
				g := env.evalBool(cl.E)
				st.assume(g)
				reqs = append(reqs, g)
			}
		}
		// vacuity guard: the precondition must be satisfiable
		x.vcs = append(x.vcs, &VC{Ob: x.fnName() + "/cover[pre]", Fn: x.fnName(), Kind: "cover", Clause: "requires is satisfiable",
			Asserts: st.asserts[:len(st.asserts):len(st.asserts)], Goal: TFalse})
	}
	x.run(st)
	return res
}

func keys(m map[string]bool) []string {
	var out []string
	for k := range m {
		out = append(out, k)
	}
	sort.Strings(out)
	return out
}

// assumeAllocated: references reachable from inputs existed at entry.
func (st *State) assumeAllocated(v Val) {
	add := func(r Term) {
		if _, ok := isIntLit(r); ok {
			return
		}
		st.assume(Or(Eq(r, IntLit(0)), Term{fmt.Sprintf("(select %s %s)", st.alloc.Name, r.S), SBool}))
		st.assume(Cmp(">=", r, IntLit(0)))
	}
	switch x := v.(type) {
	case PtrV:
		if oa, ok := x.A.(ObjAddr); ok {
			add(oa.Ref)
		}
	case SliceV:
		add(x.Arr)
	case IfaceV:
		// the payload of an interface value, when it is a reference, denotes an existing object
		if _, ok := isIntLit(x.Pay); !ok {
			st.assume(Or(Cmp("<=", x.Pay, IntLit(0)), Term{fmt.Sprintf("(select %s %s)", st.alloc.Name, x.Pay.S), SBool}))
		}
	case StructV:
		for _, f := range x.F {
			st.assumeAllocated(f)
		}
	case TupleV:
		for _, f := range x.E {
			st.assumeAllocated(f)
		}
	}
}

func (x *Exec) rootReturn(st *State, f *Frame, res []Val) {
	if x.dry != nil {
		return
	}
	if os.Getenv("SSOVC_TRACE") != "" {
		fmt.Println("RETURN", strings.Join(st.trace, " "))
	}
	con := x.con
	// every lock taken must have been released
	for k := range st.held {
		if st.heldEntry[k] {
			continue
		}
		x.emit(st, "lock-released", k[strings.LastIndex(k, ".")+1:], "mutex released on every path", nil, TFalse)
	}
	if con == nil {
		return
	}
	env := x.env0.derive(st)
	env.frame = f
	env.old = &HeapSnap{m: map[string]*HeapVer{}, epoch: "0", clock: st.clock0}
	var rv Val
	switch len(res) {
	case 0:
	case 1:
		rv = res[0]
	default:
		rv = TupleV{res}
	}
	x.bindResults(env, con, x.root.Signature, rv)
	n := 0
	for _, cl := range con.Clauses {
		if cl.Kind != "ensures" {
			continue
		}
		g, msg := x.tryClause(env, cl.E)
		if msg != "" {
			// the clause can no longer be evaluated on this code (a field or call it talks about changed
			// type or disappeared): it cannot be established
			x.emit(st, "ensures", clauseLabel(cl, n), cl.Text+"   [cannot be evaluated on this code: "+msg+"]", cl.Props, TFalse)
			n++
			continue
		}
		x.emit(st, "ensures", clauseLabel(cl, n), cl.Text, cl.Props, g)
		if cl.E.Op == "bin" && cl.E.Name == "==>" {
			// vacuity guard: on at least one path the antecedent must be satisfiable
			a := env.evalBool(cl.E.Args[0])
			x.emit(st, "cover", "ensures."+clauseLabel(cl, n), "antecedent reachable: "+cl.E.Args[0].String(), nil, Not(a))
		}
		n++
	}
	// `fresh e`: callers assume that e is nil or an object that did not exist before the call
	for _, cl := range con.Clauses {
		if cl.Kind != "fresh" {
			continue
		}
		lbl := strings.TrimSpace(strings.TrimPrefix(strings.TrimSpace(cl.Text), "fresh"))
		if lbl == "" {
			lbl = cl.E.String()
		}
		var g Term
		func() {
			defer func() {
				if r := recover(); r != nil {
					if _, ok := r.(specError); !ok {
						panic(r)
					}
					g = TFalse
				}
			}()
			r := env.refOf(env.eval(cl.E))
			g = Or(Eq(r, IntLit(0)), Not(Term{fmt.Sprintf("(select %s %s)", st.alloc0.Name, r.S), SBool}))
		}()
		x.emit(st, "fresh", lbl, "nil or allocated by this call: "+cl.E.String(), cl.Props, g)
	}
	x.frameObligations(st, env, con)
}

// frameObligations: everything not named by modifies is unchanged for objects that existed at entry.
func (x *Exec) frameObligations(st *State, env *Env, con *Contract) {
	hasMod := false
	var locs []FrameLoc
	penv := *env
	penv.inOld = true // targets are evaluated in the pre-state
	if st.lastLock != nil {
		// ... or, when the function takes a lock, in the state at acquisition (guarded
		// fields have no meaningful value before that)
		penv.inOld = false
		penv.cur = st.lastLock
	}
	for _, cl := range con.Clauses {
		if cl.Kind == "modifies" {
			hasMod = true
			for _, m := range cl.Mods {
				locs = append(locs, x.targetLocs(&penv, m)...)
			}
		}
	}
	if !hasMod {
		return
	}
	if st.epochN > 0 {
		ok := false
		for _, l := range locs {
			if l.FamPrefix == "" {
				ok = true
			}
		}
		if !ok {
			x.emit(st, "frame", "*", "a call without contract may modify anything; modifies clause cannot be proved ("+strings.Join(st.notes, "; ")+")", nil, TFalse)
		}
		return
	}
	var goals []Term
	var names []string
	fams := make([]string, 0, len(st.heaps))
	for fam := range st.heaps {
		fams = append(fams, fam)
	}
	sort.Strings(fams)
	clockOK := false
	for _, l := range locs {
		if l.FamPrefix == "clock" && l.Exact {
			clockOK = true
		}
		if l.FamPrefix == "" {
			return
		}
	}
	if !clockOK && st.clock.S != st.clock0.S {
		// reading the clock is not a heap effect; contracts that mention `clock` must list it
		if x.mentionsClock(con) {
			goals = append(goals, TFalse)
			names = append(names, "clock")
		}
	}
	for _, fam := range fams {
		h := st.heaps[fam]
		if fam == "alloc" {
			continue
		}
		base := baseHeap("0", fam, h.Dims, h.Elem)
		if fb, ok := st.frameBase[fam]; ok {
			base = fb
		}
		if h.Name == base.Name {
			continue
		}
		var allowed []Term
		whole := false
		for _, l := range locs {
			if !locCovers(l, fam) {
				continue
			}
			if l.Idx == nil {
				whole = true
			} else {
				allowed = append(allowed, l.Idx[0])
			}
		}
		if whole {
			continue
		}
		if len(h.Dims) == 0 {
			goals = append(goals, Eq(Term{h.Name, h.Elem}, Term{base.Name, h.Elem}))
			names = append(names, fam)
			continue
		}
		r := reg.freshConst("fr", h.Dims[0])
		conds := []Term{}
		if h.Dims[0] == SInt {
			conds = append(conds, Term{fmt.Sprintf("(select %s %s)", st.alloc0.Name, r.S), SBool})
		}
		for _, a := range allowed {
			conds = append(conds, Not(Eq(r, a)))
		}
		eq := Term{fmt.Sprintf("(= (select %s %s) (select %s %s))", h.Name, r.S, base.Name, r.S), SBool}
		goals = append(goals, Implies(And(conds...), eq))
		names = append(names, fam)
	}
	for i, g := range goals {
		x.emit(st, "frame", famDisplay(names[i]), "unchanged unless listed in modifies: "+names[i], nil, g)
	}
	if len(goals) == 0 {
		x.emit(st, "frame", "", "nothing outside modifies changed (no heap family was written)", nil, TTrue)
	}
}

func (x *Exec) mentionsClock(con *Contract) bool {
	for _, cl := range con.Clauses {
		if cl.E != nil && strings.Contains(cl.Text, "clock") {
			return true
		}
	}
	return false
}

func locCovers(l FrameLoc, fam string) bool {
	if l.Exact {
		return fam == l.FamPrefix
	}
	if !strings.HasPrefix(fam, l.FamPrefix) {
		return false
	}
	rest := fam[len(l.FamPrefix):]
	return rest == "" || rest[0] == '.' || rest[0] == '#' || strings.HasSuffix(l.FamPrefix, "|")
}

func famDisplay(f string) string {
	f = strings.ReplaceAll(f, "github.com/buzzfeed/sso/internal/", "")
	return strings.ReplaceAll(f, "|", ":")
}

var _ = types.Typ

// verifyLemma checks a lemma (a contract without code): requires ==> ensures for all parameter values.
func (e *Engine) verifyLemma(c *Contract) (res *FnResult) {
	res = &FnResult{Fn: "lemma/" + c.FnName, Contract: c, File: c.File}
	x := &Exec{eng: e, con: c, limit: 1, lemma: "lemma/" + c.FnName}
	defer func() {
		if r := recover(); r != nil {
			switch er := r.(type) {
			case unsupported:
				res.Err = er.Error()
			case specError:
				res.Err = er.Error()
			default:
				panic(r)
			}
		}
		res.VCs = x.vcs
		res.Libs = keys(x.libs)
	}()
	st := &State{heaps: map[string]*HeapVer{}, anchors: map[string]*Anchor{}, callCount: map[string]int{}, held: map[string]bool{},
		lockSnap: map[string]*HeapSnap{}, ghost: map[string]Term{}, epoch: "0"}
	st.alloc = baseHeap("0", "alloc", []Sort{SInt}, SBool)
	st.alloc0 = st.alloc
	reg.declare("u_clock0", "(declare-const u_clock0 Int)")
	st.clock = Term{"u_clock0", SInt}
	st.clock0 = st.clock
	env := &Env{x: x, st: st, vars: map[string]TV{}, lets: map[string]*Expr{}, pkg: e.typesPkg(c.Pkg)}
	for i, p := range c.Params {
		t := e.specType(c.PTypes[i], c.Pkg)
		if t == nil {
			sfail("lemma %s: unknown type %q", c.FnName, c.PTypes[i])
		}
		v := st.freshVal(t, "lem_"+p)
		st.assumeAllocated(v)
		env.vars[p] = TV{v, t}
	}
	x.env0 = env
	for _, cl := range c.Clauses {
		if cl.Kind == "let" {
			env.lets[cl.LetVar] = cl.E
		}
	}
	for _, cl := range c.Clauses {
		if cl.Kind == "requires" {
			st.assume(env.evalBool(cl.E))
		}
	}
	x.vcs = append(x.vcs, &VC{Ob: x.fnName() + "/cover[pre]", Fn: x.fnName(), Kind: "cover", Clause: "requires is satisfiable",
		Asserts: st.asserts[:len(st.asserts):len(st.asserts)], Goal: TFalse})
	n := 0
	for _, cl := range c.Clauses {
		if cl.Kind == "ensures" {
			x.emit(st, "ensures", clauseLabel(cl, n), cl.Text, cl.Props, env.evalBool(cl.E))
			n++
		}
	}
	return res
}

func (e *Engine) specType(name, pkg string) types.Type {
	if strings.HasPrefix(name, "[]") {
		el := e.specType(name[2:], pkg)
		if el == nil {
			return nil
		}
		return types.NewSlice(el)
	}
	if strings.HasPrefix(name, "*") {
		el := e.specType(name[1:], pkg)
		if el == nil {
			return nil
		}
		return types.NewPointer(el)
	}
	switch name {
	case "string", "int", "bool", "error":
		return e.typeByName(name)
	case "time":
		return e.typeByName("time.Time")
	}
	if !strings.Contains(name, ".") && pkg != "" {
		if tp := e.typesPkg(pkg); tp != nil {
			if o := tp.Scope().Lookup(name); o != nil {
				return o.Type()
			}
		}
	}
	return e.typeByName(name)
}

// tryClause evaluates a postcondition / sink precondition; a contract error is returned as a message.
func (x *Exec) tryClause(env *Env, e *Expr) (g Term, msg string) {
	defer func() {
		if r := recover(); r != nil {
			if se, ok := r.(specError); ok {
				g, msg = TFalse, se.msg
				return
			}
			panic(r)
		}
	}()
	return env.evalBool(e), ""
}

// appendsInPlace lists the append calls of fn whose first argument derives (through phis and earlier
// appends) from a bounded re-slice x[lo:hi] of a slice that fn did not allocate itself.
// builtLocally: v is a slice that derives only from allocations of the enclosing function (a literal, make,
// nil), re-slices of those, and appends to those.
func builtLocally(v ssa.Value) bool { return isLocalSlice(v, map[ssa.Value]bool{}) }

func isLocalSlice(v ssa.Value, seen map[ssa.Value]bool) bool {
	if seen[v] {
		return true
	}
	seen[v] = true
	switch t := v.(type) {
	case *ssa.Alloc:
		return t.Heap || true
	case *ssa.MakeSlice:
		return true
	case *ssa.Const:
		return true
	case *ssa.Phi:
		for _, e := range t.Edges {
			if !isLocalSlice(e, seen) {
				return false
			}
		}
		return true
	case *ssa.Slice:
		return isLocalSlice(t.X, seen)
	case *ssa.Call:
		if b, ok := t.Call.Value.(*ssa.Builtin); ok && b.Name() == "append" {
			return isLocalSlice(t.Call.Args[0], seen)
		}
	}
	return false
}

func appendsInPlace(fn *ssa.Function) []string {
	var out []string
	isLocal := isLocalSlice
	var tainted func(v ssa.Value, seen map[ssa.Value]bool) bool
	tainted = func(v ssa.Value, seen map[ssa.Value]bool) bool {
		if seen[v] {
			return false
		}
		seen[v] = true
		switch t := v.(type) {
		case *ssa.Phi:
			for _, e := range t.Edges {
				if tainted(e, seen) {
					return true
				}
			}
		case *ssa.Slice:
			if t.High != nil || t.Low != nil {
				if _, isStr := t.X.Type().Underlying().(*types.Basic); isStr {
					return false
				}
				return !isLocal(t.X, map[ssa.Value]bool{})
			}
			return tainted(t.X, seen)
		case *ssa.Call:
			if b, ok := t.Call.Value.(*ssa.Builtin); ok && b.Name() == "append" {
				return tainted(t.Call.Args[0], seen)
			}
		}
		return false
	}
	for _, b := range fn.Blocks {
		for _, in := range b.Instrs {
			c, ok := in.(*ssa.Call)
			if !ok {
				continue
			}
			if bi, ok := c.Call.Value.(*ssa.Builtin); !ok || bi.Name() != "append" {
				continue
			}
			if tainted(c.Call.Args[0], map[ssa.Value]bool{}) {
				out = append(out, posOf(in))
			}
		}
	}
	return out
}
