#!/usr/bin/env python3
"""Regenerates /verif/MANIFEST.json from tools/claims.json (one entry per claimed property)."""
import json, os, subprocess
here = os.path.dirname(os.path.abspath(__file__))
root = os.path.dirname(here)
props = [json.loads(l) for l in open(os.path.join(root, 'properties.jsonl'))]
claims = json.load(open(os.path.join(here, 'claims.json')))
hooks = subprocess.run(['git', '-C', '/repo', 'log', '--format=%H %s'], capture_output=True, text=True).stdout.splitlines()
hook_commits = [l.split()[0] for l in hooks if 'verif hook' in l]
checks, na = [], []
for p in props:
    pid = p['id']
    c = claims.get(pid)
    if c and c.get('claimed'):
        checks.append({
            'property_id': pid,
            'quick_cmd': f'./check {pid} --tier quick',
            'thorough_cmd': f'./check {pid} --tier thorough',
            'evidence_file': f'/verif/evidence/{pid}.json',
            'replay_cmd_template': f'./check {pid} --replay {{path}}',
            'engine': 'ssovc',
            'level_claimed': {'category': 'proof', 'text': c['text'], 'design_ref': c.get('design_ref', 'DESIGN.md §5 ' + pid)},
            'level_note': c['note'],
            'technique': c.get('technique', 'contract-based deductive verification: contracts as //@ comments on the real functions, VCs generated from go/ssa by ssovc, discharged by z3/cvc5'),
        })
    else:
        na.append({'property_id': pid, 'reason': (c or {}).get('reason', 'not built: contracts for this property were not completed in the time available (see DESIGN.md §5 for the planned decision procedure)')})
m = {
    'version': 1,
    'setup_cmd': './setup.sh',
    'hooks': {
        'guard': 'verif',
        'enable': 'go/packages BuildFlags -tags=verif: adds the comment-only contract files internal/**/zz_contracts_verif.go; no code is compiled differently',
        'baseline_off_cmd': 'cd /repo && GOFLAGS=-mod=mod go test -vet=off -count=1 -timeout 25m ./...',
        'source_commits': hook_commits,
        'add_only': True,
    },
    'engines': [{'name': 'ssovc', 'path': 'cmd/ssovc', 'serves_properties': [c['property_id'] for c in checks],
                 'kind_free_text': 'own verification-condition generator over go/ssa (x/tools v0.29.0) with Gobra-style contracts kept as //@ comments in /repo behind build tag verif; obligations discharged by z3-new 5.1.0, cvc5 1.0, z3 4.8.12'}],
    'checks': checks,
    'notes': 'See DESIGN.md. Exit codes: 0 all obligations discharged; 1 with VIOLATION line(s) when an obligation that discharges on the unchanged tree fails; 2 with UNDECIDED when a contract can no longer be attached (function renamed/removed, outside the Go subset, solver missing).',
    'not_applicable': na,
}
json.dump(m, open(os.path.join(root, 'MANIFEST.json'), 'w'), indent=1)
print('checks:', [c['property_id'] for c in checks])
