#!/bin/sh
# tools/harmless.sh <ID> <repo-relative file> <sed-expression> — applies a behaviour-preserving textual edit to a scratch
# copy of /repo and runs the property's check there: it must still exit 0 (no alarm on code where the property holds).
cd "$(dirname "$0")/.."
export GOFLAGS=-mod=mod GOPROXY=off GOSUMDB=off GOTOOLCHAIN=local CGO_ENABLED=0
BIN="${SSOVC_BIN:-bin/ssovc}"
S=$(mktemp -d /tmp/ssovc-harmless.XXXXXX); trap 'rm -rf "$S"' EXIT
rsync -a --exclude .git /repo/ "$S/repo/"
sed -i -E "$3" "$S/repo/$2"
if cmp -s "$S/repo/$2" "/repo/$2"; then echo "$1 $2: edit changed nothing"; exit 3; fi
(cd "$S/repo" && go build ./internal/... && go vet ./$(dirname "$2")/ >/dev/null 2>&1; go test -count=1 ./$(dirname "$2")/ 2>&1 | grep -E "^--- FAIL" | grep -v TestRoundTrip | head -3)
VERIF_SCRATCH_OUT="$S/out" VERIF_REPO="$S/repo" "$BIN" check -property "$1" -tier quick > "$S/log" 2>&1; rc=$?
echo "$1 $2 [$3]: exit $rc  $(tail -n 1 "$S/log" | cut -c1-110)"
[ $rc -ne 0 ] && grep -a "^VIOLATION\|^UNDECIDED" "$S/log" | cut -c1-260 | head -4
exit 0
