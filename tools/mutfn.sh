#!/bin/sh
# tools/mutfn.sh <fn-short-name> <repo-relative file> <old> <new>  — apply a textual change to a scratch copy of /repo
# and run the verifier on one function there (development aid; prints the failed obligations).
cd "$(dirname "$0")/.."
export GOFLAGS=-mod=mod GOPROXY=off GOSUMDB=off GOTOOLCHAIN=local CGO_ENABLED=0
BIN="${SSOVC_BIN:-bin/ssovc.dev}"
S=$(mktemp -d /tmp/ssovc-mutfn.XXXXXX); trap 'rm -rf "$S"' EXIT
rsync -a --exclude .git /repo/ "$S/repo/"
python3 - "$S/repo/$2" "$3" "$4" <<'PY' || exit 3
import sys
p,old,new=sys.argv[1:4]
s=open(p).read()
if old not in s: sys.exit("old text not found")
open(p,'w').write(s.replace(old,new,1))
PY
(cd "$S/repo" && go build ./internal/... ) || { echo NOBUILD; exit 3; }
VERIF_SCRATCH_OUT="$S/out" VERIF_REPO="$S/repo" "$BIN" fn -name "$1" 2>&1 | grep -v "^  ok\|discharged\|^      \|^        " | cut -c1-220
