#!/usr/bin/env python3
"""tools/seedprompt.py <ID> — the instructions given to an independent sub-agent that writes two seeded
property-breaking changes in a scratch worktree /tmp/seed-<ID> (it is told nothing about /verif except the
one-line titles of ideas already tried, so that it looks elsewhere)."""
import sys,json,os,glob
pid=sys.argv[1]
prop=None
for l in open('/verif/properties.jsonl'):
    p=json.loads(l)
    if p['id']==pid:
        prop=json.dumps({"id":p['id'],"title":p['title'],"statement":p['statement'],"quantifier":p['quantifier']['text'],"files":p['anchors']['files'],"mechanism":[m['name']+" ("+m['where']+")" for m in p['anchors']['mechanism']]},indent=1)
tried=[]
for d in sorted(glob.glob(f'/verif/seeded/{pid}-*')):
    n=open(d+'/notes.md').read().split('\n')
    t=[l for l in n if l.strip()][:1]
    if t: tried.append('- '+t[0].lstrip('# ').strip())
tried='\n'.join(tried)
print(f'''You are helping test a verification tool. Work ONLY inside the scratch git worktree /tmp/seed-{pid} (a checkout of the Go project buzzfeed/sso: an OAuth2 authenticator `sso-auth` plus an authenticating reverse proxy `sso-proxy`). Do not touch /repo or /verif and do not read anything under /verif.

Environment: no network. Before every go command run: `export GOFLAGS=-mod=mod GOPROXY=off GOSUMDB=off GOTOOLCHAIN=local`. Build with `go build ./...`, run tests with `go test -vet=off -count=1 ./internal/...`. On the unmodified tree every test passes except `TestRoundTrip` in internal/proxy (it needs DNS; it always fails — ignore it; `TestNewStatsd` and `TestGracefulShutdown` are occasionally flaky and unrelated). Files named zz_contracts_verif.go were deleted from this worktree on purpose; ignore that, never restore or mention them, and exclude them from any diff.

The semantic property under test (JSON, read it carefully — `mechanism` lists the code that implements it):
```
{prop}
```

Your task: produce TWO different, independent changes to the Go source of buzzfeed/sso (non-test files under internal/), each of which BREAKS this property while the project still compiles and the existing test suite still passes (apart from the always-failing TestRoundTrip). Each change must need something specific to manifest — an unusual input, a particular combination of fields / answers / timing, a multi-step sequence, or two cooperating edits that each look harmless alone — not something ordinary use or the existing tests would expose at once. Make them look like plausible refactorings or "improvements" a real developer might commit, small (a few lines), different from each other in kind, and touching DIFFERENT functions/files from each other.

These ideas have ALREADY been tried by others — do NOT repeat them or close variants of them; pick other mechanisms, other functions, other clauses of the property statement:
{tried}

Read the property statement clause by clause and choose clauses/mechanisms the list above does not touch (constructors and wiring code, option/config plumbing, helper functions, data passed between layers, error paths, state updated at the wrong moment or taken from the wrong place, code in OTHER packages that this property silently relies on). Avoid simply deleting a whole check; prefer a condition or computation that is subtly wrong for particular values.

For each change k in {{1,2}}:
1. Make the change in the worktree, confirm `go build ./...` succeeds and `go test -vet=off -count=1 ./internal/...` shows no new failures (only TestRoundTrip may fail).
2. Write a demonstration: a new in-package Go test file whose test function names start with `TestSeed` (e.g. `TestSeed{pid}Change1`), that FAILS with the change and PASSES without it. It should exercise the real code (you may use the package's existing test helpers and mocks). Verify both directions yourself (with the change: fails; after reverting the source change: passes). Keep it deterministic and fast (< 5 s).
3. Save into /tmp/seed-{pid}/out/k/ : `patch.diff` (output of `git diff -- internal ':!**/zz_contracts_verif.go' ':!**/*_test.go'` containing only the source change), `demo_test.go` (the demonstration test file; state in notes.md which package directory it belongs in, e.g. internal/proxy), and `notes.md` (first line: a one-line title of the change; then what the change is, why it breaks the property, a section "Trigger" saying what it needs in order to manifest, the package directory of the demo, the exact commands you ran and their results in both directions).
4. Revert the source change (git checkout the modified source files, delete your test file from the tree) before starting the next one, so that patch 2 is relative to the pristine tree too.

Finish by replying with a short summary: for each change, one paragraph with the file/function touched, the trigger condition, the package directory of the demo test, and confirmation that build + existing tests pass and that the demo fails with / passes without the change.''')
