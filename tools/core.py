#!/usr/bin/env python3
"""tools/core.py file.smt2 — minimal unsat core of the assumptions (negated goal dropped): finds vacuity."""
import subprocess,sys
f=sys.argv[1]
keepgoal=len(sys.argv)>2
lines=open(f).read().split('\n')
decl=[l for l in lines if not l.startswith('(assert') and not l.startswith('(check') and not l.startswith('(get')]
asserts=[l for l in lines if l.startswith('(assert')]
if not keepgoal: asserts=asserts[:-1]
def unsat(sub):
    open('/tmp/t.smt2','w').write('\n'.join(decl+sub+['(check-sat)']))
    r=subprocess.run(['z3-new','-T:10','/tmp/t.smt2'],capture_output=True,text=True).stdout
    return r.strip().startswith('unsat')
if not unsat(asserts):
    print('assumptions are not (provably) inconsistent'); sys.exit(0)
lo,hi=0,len(asserts)
while lo<hi:
    mid=(lo+hi)//2
    if unsat(asserts[:mid]): hi=mid
    else: lo=mid+1
core=asserts[:lo]
i=0
while i<len(core):
    t=core[:i]+core[i+1:]
    if unsat(t): core=t
    else: i+=1
print('core of',len(core),'from prefix',lo,'of',len(asserts))
for c in core: print(c[:600])
