#!/bin/sh
# tools/harmless_all.sh — the no-alarm corpus: every patch under harmless/<ID>/ is a behaviour-preserving edit (a local
# renamed, two independent statements swapped, ...); applied to a scratch copy of /repo, it must build, keep the touched
# package's tests passing, and leave the property's check at exit 0.
cd "$(dirname "$0")/.."
export GOFLAGS=-mod=mod GOPROXY=off GOSUMDB=off GOTOOLCHAIN=local CGO_ENABLED=0
BIN="${SSOVC_BIN:-bin/ssovc}"
S=$(mktemp -d /tmp/ssovc-harmless.XXXXXX); trap 'rm -rf "$S"' EXIT
rsync -a --exclude .git /repo/ "$S/pristine/"
HERE=$(pwd); fail=0; n=0
for p in harmless/*/*.patch; do
  id=$(basename $(dirname $p)); n=$((n+1)); W="$S/w$n"
  rsync -a "$S/pristine/" "$W/"
  (cd "$W" && patch -p1 -s < "$HERE/$p") || { echo "NOAPPLY $p"; fail=1; continue; }
  (cd "$W" && go build ./internal/... 2>/dev/null) || { echo "NOBUILD $p"; fail=1; continue; }
  VERIF_SCRATCH_OUT="$S/out$n" VERIF_REPO="$W" "$HERE/$BIN" check -property "$id" -tier quick > "$S/log$n" 2>&1; rc=$?
  if [ $rc -eq 0 ]; then echo "quiet   $p"; else echo "ALARM   $p (exit $rc): $(grep -a '^VIOLATION\|^UNDECIDED' "$S/log$n" | head -2 | cut -c1-200)"; fail=1; fi
  rm -rf "$W" "$S/out$n"
done
echo "HARMLESS: $n edits, $( [ $fail -eq 0 ] && echo all quiet || echo SOME ALARMS )"
exit $fail
