#!/bin/sh
# tools/regress.sh — every claimed check on the current tree, every must-fail corpus, the no-alarm corpus of
# behaviour-preserving edits, and all kept seeded changes.
cd "$(dirname "$0")/.."
IDS=$(python3 -c "import json;print(' '.join(c['property_id'] for c in json.load(open('MANIFEST.json'))['checks']))")
rc=0
for id in $IDS; do
  out=$(./check $id --tier quick 2>&1 | tail -n 1); echo "$out"
  echo "$out" | grep -q " 0 violations" || rc=1
done
for id in $IDS; do
  [ -d selftest/$id ] || continue
  tools/selftest.sh $id | tail -n 1 | grep -q "all caught" && echo "selftest $id ok" || { echo "selftest $id FAILED"; tools/selftest.sh $id | grep -v caught; rc=1; }
done
tools/harmless_all.sh | tail -n 1 | grep -q "all quiet" && echo "harmless corpus quiet" || { echo "harmless corpus ALARMS"; tools/harmless_all.sh | grep -v "^quiet"; rc=1; }
tools/reseed.sh | tail -n 1
exit $rc
