#!/bin/sh
# tools/regress.sh — every claimed check on the current tree, then every must-fail corpus.
cd "$(dirname "$0")/.."
IDS=$(python3 -c "import json;print(' '.join(c['property_id'] for c in json.load(open('MANIFEST.json'))['checks']))")
rc=0
for id in $IDS; do
  out=$(./check $id --tier quick 2>&1 | tail -n 1); echo "$out"
  echo "$out" | grep -q " 0 violations" || rc=1
done
for id in $IDS; do
  [ -d selftest/$id ] || continue
  tools/selftest.sh $id | tail -n 1 | grep -q "all caught" && echo "selftest $id ok" || { echo "selftest $id FAILED"; tools/selftest.sh $id | grep -v caught; rc=1; }
done
exit $rc
