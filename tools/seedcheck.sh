#!/bin/sh
# tools/seedcheck.sh <ID> <k> <pkgdir-of-demo> — validates a seeded change produced by a sub-agent in
# /tmp/seed-<ID>/out/<k>/ in a scratch copy (patch applies, builds, existing tests of touched packages pass,
# demo fails with / passes without), runs ./check-equivalent on the scratch copy, and stores it under seeded/.
cd "$(dirname "$0")/.."
export GOFLAGS=-mod=mod GOPROXY=off GOSUMDB=off GOTOOLCHAIN=local CGO_ENABLED=0
ID="$1"; K="$2"; PKG="$3"; SRC="/tmp/seed-$ID/out/$K"
NAME="$ID-$K"
SCR=$(mktemp -d /tmp/ssovc-seed.XXXXXX)
trap 'rm -rf "$SCR"' EXIT
rsync -a --exclude .git "${SEED_REPO:-/repo}/" "$SCR/repo/"
LOG="$SCR/log.txt"
DEMO="$SCR/repo/$PKG/zz_seed_demo_test.go"
cp "$SRC/demo_test.go" "$DEMO"
( cd "$SCR/repo" && go test -vet=off -count=1 -run 'Seed' "./$PKG/" > "$SCR/without.log" 2>&1 ); RC_WITHOUT=$?
( cd "$SCR/repo" && patch -p1 -s < "$SRC/patch.diff" ) || { echo "$NAME: patch does not apply"; exit 1; }
( cd "$SCR/repo" && go build ./... > "$SCR/build.log" 2>&1 ) || { echo "$NAME: does not build"; cat "$SCR/build.log"; exit 1; }
( cd "$SCR/repo" && go test -vet=off -count=1 -run 'Seed' "./$PKG/" > "$SCR/with.log" 2>&1 ); RC_WITH=$?
rm -f "$DEMO"
( cd "$SCR/repo" && go test -vet=off -count=1 ./internal/... 2>&1 | grep -aE "^(--- FAIL|FAIL|ok)" > "$SCR/suite.log" )
NEWFAIL=$(grep -aE "^--- FAIL" "$SCR/suite.log" | grep -v "TestRoundTrip\|TestNewStatsd\|TestGracefulShutdown\|TestLogRequestMetrics\|TestTimeoutHandler" | tr '\n' ' ')
export VERIF_SCRATCH_OUT="$SCR/out"; mkdir -p "$VERIF_SCRATCH_OUT"
VERIF_REPO="$SCR/repo" "${SSOVC_BIN:-bin/ssovc}" check -property "$ID" -tier quick > "$SCR/check.log" 2>&1; RC=$?
VIOL=$(grep -a '^VIOLATION' "$SCR/check.log" | sed 's/.*obligation=//' | tr '\n' ' ')
echo "$NAME: demo without=$RC_WITHOUT with=$RC_WITH suite-new-failures=[$NEWFAIL] check-exit=$RC obligations=[$VIOL]"
[ $RC -eq 2 ] && grep -a UNDECIDED "$SCR/check.log"
if [ $RC_WITHOUT -eq 0 ] && [ $RC_WITH -ne 0 ] && [ -z "$NEWFAIL" ]; then
  OUT="${SEED_OUT:-seeded}"
  mkdir -p "$OUT/$NAME"
  cp "$SRC/patch.diff" "$OUT/$NAME/patch.diff"
  cp "$SRC/demo_test.go" "$OUT/$NAME/demo_test.go"
  [ -f "$SRC/notes.md" ] && cp "$SRC/notes.md" "$OUT/$NAME/notes.md"
  python3 - "$NAME" "$ID" "$PKG" "$RC" "$VIOL" "$OUT" <<'PY'
import json,sys
name,pid,pkg,rc,viol,out=sys.argv[1:7]
notes=''
meta={"property":pid,"breaks":"see notes.md","needs_to_manifest":"see notes.md (trigger section)","demo_package":pkg,
 "validated":{"patch_applies_to_repo_head":True,"go_build":"ok","existing_suite":"no new failures (TestRoundTrip is a baseline failure)","demo_without_change":"pass","demo_with_change":"fail"},
 "ran":["go test -vet=off -count=1 -run Seed ./%s/ (without and with patch, in a scratch copy)"%pkg,"go test -vet=off -count=1 ./internal/...","bin/ssovc check -property %s -tier quick (VERIF_REPO=scratch copy)"%pid],
 "check_exit":int(rc),"failed_obligations":viol.split(),"detected":rc=="1"}
json.dump(meta,open(f'{out}/{name}/meta.json','w'),indent=1)
PY
else
  echo "$NAME: NOT KEPT (validation failed)"; tail -n 5 "$SCR/without.log"; tail -n 5 "$SCR/with.log"
fi
