#!/bin/sh
# tools/mkmut.sh <ID> <name> <repo-relative file> <old> <new> — writes selftest/<ID>/<name>.patch (a textual change of
# /repo's current file), after checking that the changed tree still builds.
cd "$(dirname "$0")/.."
export GOFLAGS=-mod=mod GOPROXY=off GOSUMDB=off GOTOOLCHAIN=local CGO_ENABLED=0
S=$(mktemp -d /tmp/ssovc-mkmut.XXXXXX); trap 'rm -rf "$S"' EXIT
mkdir -p "$S/a/$(dirname "$3")" "$S/b/$(dirname "$3")" "selftest/$1"
cp "/repo/$3" "$S/a/$3"; cp "/repo/$3" "$S/b/$3"
python3 - "$S/b/$3" "$4" "$5" <<'PY' || exit 3
import sys
p,old,new=sys.argv[1:4]
s=open(p).read()
if old not in s: sys.exit("old text not found")
open(p,'w').write(s.replace(old,new,1))
PY
(cd "$S" && diff -u "a/$3" "b/$3" > "$OLDPWD/selftest/$1/$2.patch")
echo "selftest/$1/$2.patch: $(wc -l < selftest/$1/$2.patch) lines"
