#!/bin/sh
# NOT USEFUL ON THIS MACHINE: ssovc already uses all 16 cores per check, so four streams only oversubscribe (load 120,
# nothing finishes); kept for a larger machine. Use tools/regress.sh, or its parts one after another.
# tools/regress_par.sh — tools/regress.sh in four parallel streams (logs under out/regress/): A every claimed check on
# the current tree (the only stream that writes evidence/), B and C the must-fail corpora (two halves), D the no-alarm
# corpus and all kept seeded changes. Prints a one-line verdict per stream.
cd "$(dirname "$0")/.."
mkdir -p out/regress; rm -f out/regress/*.log
IDS=$(python3 -c "import json;print(' '.join(c['property_id'] for c in json.load(open('MANIFEST.json'))['checks']))")
H1=$(echo $IDS | cut -d' ' -f1-10); H2=$(echo $IDS | cut -d' ' -f11-)
( for id in $IDS; do ./check $id --tier quick 2>&1 | tail -n 1; done > out/regress/A.log 2>&1 ) &
st() { for id in $*; do [ -d selftest/$id ] || continue; tools/selftest.sh $id | grep -v "^  caught\|^  pristine ok"; done; }
( st $H1 > out/regress/B.log 2>&1 ) &
( st $H2 > out/regress/C.log 2>&1 ) &
( tools/harmless_all.sh | grep -v "^quiet" > out/regress/D.log 2>&1; tools/reseed.sh > out/regress/D_reseed.log 2>&1 ) &
wait
echo "A: $(grep -c ' 0 violations' out/regress/A.log) of $(echo $IDS | wc -w) checks with 0 violations"; grep -v ' 0 violations' out/regress/A.log
echo "B+C: $(cat out/regress/B.log out/regress/C.log | grep -c 'all caught') corpora all caught"; cat out/regress/B.log out/regress/C.log | grep -v 'all caught'
cat out/regress/D.log; tail -n 1 out/regress/D_reseed.log; grep -v ' detected' out/regress/D_reseed.log | grep -v '^RESEED'
