#!/usr/bin/env python3
"""tools/scope.py [--fix] — the scope rule, mechanically: every function that has a clause tagged [Cxx] in a
contract file must be listed under property Cxx in spec/props.json. Prints what is missing; --fix adds it.
Environment: VERIF_REPO (default /repo), VERIF_DIR (default: this checkout)."""
import json, os, re, sys, glob
repo = os.environ.get('VERIF_REPO', '/repo')
vd = os.environ.get('VERIF_DIR', os.path.join(os.path.dirname(os.path.abspath(__file__)), '..'))
props = json.load(open(os.path.join(vd, 'spec', 'props.json')))
missing = {}
for f in sorted(glob.glob(repo + '/internal/**/zz_contracts_verif.go', recursive=True)):
    pkg = os.path.relpath(os.path.dirname(f), repo + '/internal')
    cur = None
    for line in open(f):
        m = re.match(r'//@\s+func\s+(\(([^)]*)\)\s*)?([A-Za-z0-9_$]+)\s*\(', line)
        if m:
            recv, name = m.group(2), m.group(3)
            if recv:
                t = recv.split()[-1]
                cur = '(*%s.%s).%s' % (pkg, t[1:], name) if t.startswith('*') else '(%s.%s).%s' % (pkg, t, name)
            else:
                cur = '%s.%s' % (pkg, name)
            continue
        if re.match(r'//@\s+(lemmafn|lemma|interface|type)\b', line):
            cur = None
            continue
        if cur is None:
            continue
        m = re.match(r'//@\s+(ensures|sink|requires|invariant)\s+\[([^\]]*)\]', line)
        if m:
            for pid in m.group(2).split():
                if pid in props and cur not in props[pid].get('functions', []):
                    missing.setdefault(pid, [])
                    if cur not in missing[pid]:
                        missing[pid].append(cur)
for pid in sorted(missing):
    for fn in missing[pid]:
        print('%s: %s' % (pid, fn))
if '--fix' in sys.argv and missing:
    for pid, fns in missing.items():
        props[pid].setdefault('functions', []).extend(fns)
    json.dump(props, open(os.path.join(vd, 'spec', 'props.json'), 'w'), indent=1)
    print('props.json updated')
