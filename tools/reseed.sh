#!/bin/sh
# tools/reseed.sh [ID-k ...] — re-runs every kept seeded change (seeded/<ID>-<k>/patch.diff) against the current
# checks on scratch copies of /repo, 4 at a time, and prints which are detected (exit 1 + VIOLATION of that property).
cd "$(dirname "$0")/.."
export GOFLAGS=-mod=mod GOPROXY=off GOSUMDB=off GOTOOLCHAIN=local CGO_ENABLED=0
BIN="${SSOVC_BIN:-bin/ssovc}"
LIST="$*"; [ -n "$LIST" ] || LIST=$(ls seeded)
SCR=$(mktemp -d /tmp/ssovc-reseed.XXXXXX); trap 'rm -rf "$SCR"' EXIT
rsync -a --exclude .git /repo/ "$SCR/pristine/"
HERE=$(pwd)
one() {
  n="$1"; id="${n%%-*}"; W="$SCR/$n"; mkdir -p "$W/out"
  rsync -a "$SCR/pristine/" "$W/repo/"
  (cd "$W/repo" && patch -p1 -s < "$HERE/seeded/$n/patch.diff" >/dev/null 2>&1) || { echo "$n NOAPPLY" > "$W/result"; rm -rf "$W/repo"; return; }
  (cd "$W/repo" && go build ./internal/... 2>/dev/null) || { echo "$n NOBUILD" > "$W/result"; rm -rf "$W/repo"; return; }
  VERIF_SCRATCH_OUT="$W/out" VERIF_REPO="$W/repo" "$HERE/$BIN" check -property "$id" -tier quick > "$W/log" 2>&1; rc=$?
  if [ $rc -eq 1 ] && grep -aq "^VIOLATION property=$id " "$W/log"; then echo "$n detected: $(grep -a '^VIOLATION' "$W/log" | sed 's/.*obligation=//' | cut -d' ' -f1 | head -3 | tr '\n' ' ')" > "$W/result"
  else echo "$n NOT-DETECTED (exit $rc) $(tail -n 1 "$W/log" | cut -c1-120)" > "$W/result"; fi
  rm -rf "$W/repo" "$W/out"
}
k=0
for n in $LIST; do
  [ -f "seeded/$n/patch.diff" ] || continue
  one "$n" & k=$((k+1))
  if [ $k -ge 4 ]; then wait; k=0; fi
done
wait
cat "$SCR"/*/result | sort
echo "RESEED: $(cat "$SCR"/*/result | grep -c ' detected') detected of $(cat "$SCR"/*/result | wc -l)"
