#!/bin/sh
# tools/selftest.sh <ID> [patch...]  — must-fail corpus: every patch under selftest/<ID>/ applied to a scratch
# copy of /repo must produce a VIOLATION for <ID>; the pristine scratch copy must not. Scratch is removed.
cd "$(dirname "$0")/.."
export GOFLAGS=-mod=mod GOPROXY=off GOSUMDB=off GOTOOLCHAIN=local CGO_ENABLED=0
ID="$1"; shift
[ -x bin/ssovc ] || ./setup.sh
SCR=$(mktemp -d /tmp/ssovc-selftest.XXXXXX)
trap 'rm -rf "$SCR"' EXIT
rsync -a --exclude .git /repo/ "$SCR/repo/"
PATCHES="$*"
[ -n "$PATCHES" ] || PATCHES=$(ls selftest/$ID/*.patch 2>/dev/null)
fail=0; n=0
export VERIF_SCRATCH_OUT="$SCR/out"
mkdir -p "$VERIF_SCRATCH_OUT"
VERIF_REPO="$SCR/repo" bin/ssovc check -property "$ID" -tier quick > "$SCR/pristine.log" 2>&1
if [ $? -ne 0 ]; then echo "SELFTEST $ID: pristine copy does not pass"; cat "$SCR/pristine.log"; fail=1; fi
for p in $PATCHES; do
  n=$((n+1))
  rsync -a --delete --exclude .git /repo/ "$SCR/repo/"
  if ! (cd "$SCR/repo" && patch -p1 -s < "$OLDPWD/$p"); then echo "SELFTEST $ID: $p does not apply"; fail=1; continue; fi
  if ! (cd "$SCR/repo" && go build ./internal/... 2>"$SCR/build.log"); then echo "SELFTEST $ID: $p does not compile"; cat "$SCR/build.log"; fail=1; continue; fi
  VERIF_REPO="$SCR/repo" bin/ssovc check -property "$ID" -tier quick > "$SCR/m.log" 2>&1
  rc=$?
  if [ $rc -eq 1 ] && grep -q "^VIOLATION property=$ID " "$SCR/m.log"; then
    echo "  caught   $(basename $p): $(grep -c '^VIOLATION' "$SCR/m.log") obligation(s): $(grep '^VIOLATION' "$SCR/m.log" | sed 's/.*obligation=//' | cut -d' ' -f1 | tr '\n' ' ' | cut -c1-200)"
  else
    echo "  MISSED   $(basename $p) (exit $rc): $(tail -2 "$SCR/m.log" | tr '\n' ' ')"
    fail=1
  fi
done
echo "SELFTEST $ID: $n mutants, $( [ $fail -eq 0 ] && echo all caught || echo SOME MISSED )"
exit $fail
