#!/bin/sh
# tools/selftest.sh <ID> [patch...]  — must-fail corpus: every patch under selftest/<ID>/ applied to a scratch
# copy of /repo must produce a VIOLATION for <ID>; the pristine scratch copy must not. Scratch is removed.
# Mutants run 4 at a time.
cd "$(dirname "$0")/.."
export GOFLAGS=-mod=mod GOPROXY=off GOSUMDB=off GOTOOLCHAIN=local CGO_ENABLED=0
ID="$1"; shift
BIN="${SSOVC_BIN:-bin/ssovc}"
[ -x "$BIN" ] || ./setup.sh
SCR=$(mktemp -d /tmp/ssovc-selftest.XXXXXX)
trap 'rm -rf "$SCR"' EXIT
PATCHES="$*"
[ -n "$PATCHES" ] || PATCHES=$(ls selftest/$ID/*.patch 2>/dev/null)
rsync -a --exclude .git /repo/ "$SCR/pristine/"
HERE=$(pwd)
one() { # $1 = patch file ("" = pristine), $2 = work dir name
  W="$SCR/$2"; mkdir -p "$W/out"
  rsync -a "$SCR/pristine/" "$W/repo/"
  if [ -n "$1" ]; then
    (cd "$W/repo" && patch -p1 -s < "$HERE/$1") || { echo "  NOAPPLY  $(basename $1)" > "$W/result"; return; }
    (cd "$W/repo" && go build ./internal/... 2>"$W/build.log") || { echo "  NOBUILD  $(basename $1): $(head -n 2 "$W/build.log" | tr '\n' ' ')" > "$W/result"; return; }
  fi
  VERIF_SCRATCH_OUT="$W/out" VERIF_REPO="$W/repo" "$HERE/$BIN" check -property "$ID" -tier quick > "$W/m.log" 2>&1
  rc=$?
  if [ -z "$1" ]; then
    if [ $rc -eq 0 ]; then echo "  pristine ok" > "$W/result"; else echo "  PRISTINE-FAILS: $(tail -n 3 "$W/m.log" | tr '\n' ' ')" > "$W/result"; fi
  elif [ $rc -eq 1 ] && grep -q "^VIOLATION property=$ID " "$W/m.log"; then
    echo "  caught   $(basename $1): $(grep -c '^VIOLATION' "$W/m.log") obligation(s): $(grep '^VIOLATION' "$W/m.log" | sed 's/.*obligation=//' | cut -d' ' -f1 | tr '\n' ' ' | cut -c1-220)" > "$W/result"
  else
    echo "  MISSED   $(basename $1) (exit $rc): $(tail -n 2 "$W/m.log" | tr '\n' ' ' | cut -c1-300)" > "$W/result"
  fi
  rm -rf "$W/repo" "$W/out"
}
n=0; k=0
one "" w0 &
for p in $PATCHES; do
  n=$((n+1)); k=$((k+1))
  one "$p" "w$n" &
  if [ $k -ge 4 ]; then wait; k=0; fi
done
wait
fail=0
for d in "$SCR"/w*; do
  cat "$d/result"
  grep -q "caught\|pristine ok" "$d/result" || fail=1
done
echo "SELFTEST $ID: $n mutants, $( [ $fail -eq 0 ] && echo all caught || echo SOME MISSED )"
exit $fail
