package proxy

// Bounded audits of assumptions the proofs rest on (thorough tier; injected into internal/proxy with
// `go test -overlay`, so the repository is never written). Each TestVerifAudit* function compares an assumed
// contract or axiom of /verif/spec with the real library on pseudo-random inputs (fixed seed). These are bounded
// checks: they raise confidence in an assumption, they prove nothing, and the evidence labels them so.

import (
	"bytes"
	"compress/gzip"
	"crypto/hmac"
	"crypto/sha256"
	"encoding/base64"
	"fmt"
	"io/ioutil"
	"math/rand"
	"net/http"
	"net/http/httptest"
	"net/http/httputil"
	"net/textproto"
	"net/url"
	"reflect"
	"strconv"
	"strings"
	"testing"
	"time"

	"github.com/imdario/mergo"
	miscreant "github.com/miscreant/miscreant.go"
)

const auditCases = 2000

func auditRand() *rand.Rand { return rand.New(rand.NewSource(20260928)) }

var auditAlphabet = []string{"", " ", ",", ", ", "a", "A", "Date", "date", "X-Forwarded-User", "x-forwarded-email", "Cookie", "Kid", "kid",
	"Sso-Signature", "close", "keep-alive", "Upgrade", "é", "\t", "Content-Length", "*", "@", ".", "=", "%3F", "?", "#", "/", "\n"}

func auditString(r *rand.Rand) string {
	n := r.Intn(6)
	var b strings.Builder
	for i := 0; i < n; i++ {
		b.WriteString(auditAlphabet[r.Intn(len(auditAlphabet))])
	}
	return b.String()
}

func report(t *testing.T, name string, n int) { t.Logf("AUDIT %s cases=%d", name, n) }

// axioms lower_idem, lower_star, lower_empty
func TestVerifAuditLower(t *testing.T) {
	r := auditRand()
	for i := 0; i < auditCases; i++ {
		s := auditString(r)
		l := strings.ToLower(s)
		if strings.ToLower(l) != l || (l == "*") != (s == "*") || (l == "") != (s == "") {
			t.Fatalf("lower axioms fail for %q", s)
		}
	}
	report(t, "lower_idem/lower_star/lower_empty", auditCases)
}

// axioms b64_roundtrip, b64_enc_decodes, b64enc_empty; atoi_itoa, itoa_nonempty; hmac_nonempty; gzip_roundtrip
func TestVerifAuditCodecs(t *testing.T) {
	r := auditRand()
	for i := 0; i < auditCases; i++ {
		b := make([]byte, r.Intn(40))
		r.Read(b)
		for _, enc := range []*base64.Encoding{base64.URLEncoding, base64.RawURLEncoding, base64.StdEncoding} {
			e := enc.EncodeToString(b)
			d, err := enc.DecodeString(e)
			if err != nil || !bytes.Equal(d, b) || (e == "") != (len(b) == 0) {
				t.Fatalf("base64 axioms fail for %x", b)
			}
		}
		n := r.Int63() - r.Int63()
		if v, err := strconv.Atoi(strconv.Itoa(int(n))); err != nil || v != int(n) || strconv.Itoa(int(n)) == "" {
			t.Fatalf("atoi/itoa axioms fail for %d", n)
		}
		m := hmac.New(sha256.New, b)
		m.Write(b)
		if len(m.Sum(nil)) == 0 {
			t.Fatalf("hmac_nonempty fails")
		}
		var buf bytes.Buffer
		zw := gzip.NewWriter(&buf)
		zw.Write(b)
		zw.Close()
		zr, err := gzip.NewReader(&buf)
		if err != nil {
			t.Fatal(err)
		}
		back, _ := ioutil.ReadAll(zr)
		if !bytes.Equal(back, b) {
			t.Fatalf("gzip_roundtrip fails for %x", b)
		}
	}
	report(t, "b64_*/atoi_itoa/itoa_nonempty/hmac_nonempty/gzip_roundtrip", auditCases)
}

// axioms seal_unseal, seal_len (AES-SIV through miscreant, as pkg/aead uses it)
func TestVerifAuditSeal(t *testing.T) {
	r := auditRand()
	key := miscreant.GenerateKey(32)
	aead, err := miscreant.NewAEAD("AES-CMAC-SIV", key, 16)
	if err != nil {
		t.Fatal(err)
	}
	for i := 0; i < 300; i++ {
		pt := make([]byte, r.Intn(200))
		r.Read(pt)
		nonce := miscreant.GenerateNonce(aead)
		ct := aead.Seal(nil, nonce, pt, nil)
		back, err := aead.Open(nil, nonce, ct, nil)
		if err != nil || !bytes.Equal(back, pt) || len(ct) != len(pt)+16 {
			t.Fatalf("seal axioms fail (len pt %d, len ct %d, err %v)", len(pt), len(ct), err)
		}
	}
	report(t, "seal_unseal/seal_len", 300)
}

// strings.Join of 0 and 1 elements; token_is_atomic; splitCount >= 1
func TestVerifAuditSplitJoin(t *testing.T) {
	r := auditRand()
	for i := 0; i < auditCases; i++ {
		v := auditString(r)
		parts := strings.Split(v, ",")
		if len(parts) < 1 || (!strings.Contains(v, ",") && (len(parts) != 1 || parts[0] != v)) {
			t.Fatalf("split model fails for %q", v)
		}
		for _, p := range parts {
			tok := strings.TrimSpace(p)
			if tok == "" {
				continue
			}
			again := strings.Split(tok, ",")
			if len(again) != 1 || again[0] != tok || strings.TrimSpace(tok) != tok {
				t.Fatalf("token_is_atomic fails for %q (token %q)", v, tok)
			}
		}
		if strings.Join(nil, v) != "" || strings.Join([]string{v}, ",") != v {
			t.Fatalf("join model fails for %q", v)
		}
	}
	report(t, "token_is_atomic/split/join", auditCases)
}

// The functional models of strings.SplitN(s, sep, 2) and of a two-element strings.Split (C12 key spec, C14 template
// variables): the cut is at the first occurrence of sep; with exactly two parts s == a + sep + b and sep is in
// neither; the first part is always sep-free and s starts with it followed by sep when there are more parts.
func TestVerifAuditSplitFunctional(t *testing.T) {
	r := auditRand()
	seps := []string{"=", ":", ",", "://"}
	for i := 0; i < auditCases; i++ {
		v := auditString(r)
		if i%3 == 0 {
			v = auditString(r) + seps[r.Intn(len(seps))] + auditString(r)
		}
		for _, sep := range seps {
			n2 := strings.SplitN(v, sep, 2)
			if ix := strings.Index(v, sep); ix < 0 {
				if len(n2) != 1 || n2[0] != v {
					t.Fatalf("SplitN model (no separator) fails for %q / %q", v, sep)
				}
			} else if len(n2) != 2 || n2[0] != v[:ix] || n2[1] != v[ix+len(sep):] || strings.Contains(n2[0], sep) || n2[0]+sep+n2[1] != v {
				t.Fatalf("SplitN model fails for %q / %q: %q", v, sep, n2)
			}
			parts := strings.Split(v, sep)
			if len(parts) == 2 && (parts[0]+sep+parts[1] != v || strings.Contains(parts[0], sep) || strings.Contains(parts[1], sep)) {
				t.Fatalf("two-part Split model fails for %q / %q", v, sep)
			}
			if len(parts) >= 2 && (strings.Contains(parts[0], sep) || !strings.HasPrefix(v, parts[0]+sep)) {
				t.Fatalf("first-part Split model fails for %q / %q", v, sep)
			}
		}
	}
	report(t, "splitn_2_and_two_part_split_are_cuts_at_the_first_separator", auditCases*len(seps))
}

// url_string_parses for the URLs sso builds (scheme, host, path, query)
func TestVerifAuditURLString(t *testing.T) {
	r := auditRand()
	n := 0
	for i := 0; i < auditCases; i++ {
		u := &url.URL{Scheme: []string{"http", "https"}[r.Intn(2)], Host: "h" + strconv.Itoa(r.Intn(9)) + ".example.com", Path: "/" + url.PathEscape(auditString(r)), RawQuery: url.Values{"k": {auditString(r)}}.Encode()}
		if _, err := url.Parse(u.String()); err != nil {
			t.Fatalf("url_string_parses fails for %#v: %v", u, err)
		}
		n++
	}
	report(t, "url_string_parses", n)
}

// The assumed contract of net/http/httputil.ReverseProxy used by C03/C12: after the Director, exactly the headers
// named by a token of Connection (canonical form of the trimmed, comma-separated tokens) and the fixed hop-by-hop
// list are removed; every other header arrives unchanged. connNames is the spec predicate of prelude.spec.
func TestVerifAuditReverseProxyHopByHop(t *testing.T) {
	var got http.Header
	backend := httptest.NewServer(http.HandlerFunc(func(w http.ResponseWriter, r *http.Request) { got = r.Header.Clone(); w.WriteHeader(204) }))
	defer backend.Close()
	bu, _ := url.Parse(backend.URL)
	rp := httputil.NewSingleHostReverseProxy(bu)
	connNames := func(v, name string) bool {
		for _, p := range strings.Split(v, ",") {
			if tok := strings.TrimSpace(p); tok != "" && textproto.CanonicalMIMEHeaderKey(tok) == name {
				return true
			}
		}
		return false
	}
	probe := []string{"Date", "Authorization", "Cookie", "X-Forwarded-User", "X-Forwarded-Email", "X-Forwarded-Groups", "X-Forwarded-Access-Token", "Content-Type", "Content-Md5", "Sso-Signature", "Kid", "Gap-Signature", "X-Other"}
	tokens := append([]string{"close", "keep-alive", " ", "", "x-other", "DATE", " cookie ", "kid", "sso-signature", "X-Forwarded-User,Date"}, probe...)
	r := auditRand()
	n := 0
	for i := 0; i < 400; i++ {
		var conn []string
		for k := r.Intn(3); k >= 0; k-- {
			var toks []string
			for j := r.Intn(3); j >= 0; j-- {
				toks = append(toks, tokens[r.Intn(len(tokens))])
			}
			conn = append(conn, strings.Join(toks, []string{",", ", ", " ,"}[r.Intn(3)]))
		}
		req := httptest.NewRequest("GET", "http://front.example/x", nil)
		for _, h := range probe {
			req.Header.Set(h, "v-"+h)
		}
		req.Header["Connection"] = conn
		got = nil
		rp.ServeHTTP(httptest.NewRecorder(), req)
		if got == nil {
			t.Fatalf("request with Connection %q did not reach the backend", conn)
		}
		for _, h := range probe {
			named := false
			for _, v := range conn {
				named = named || connNames(v, h)
			}
			_, arrived := got[h]
			if arrived == named {
				t.Fatalf("Connection %q: header %s named=%v arrived=%v — the assumed hop-by-hop contract does not describe ReverseProxy", conn, h, named, arrived)
			}
			if arrived && got.Get(h) != "v-"+h {
				t.Fatalf("header %s arrived changed: %q", h, got.Get(h))
			}
		}
		n++
	}
	report(t, "reverse-proxy hop-by-hop contract", n)
}

// The assumed contract of mergo.Merge (v0.3.7, no options) on the configuration structs it is applied to:
// field by field, a destination field keeps its value unless it is empty (zero scalar/string, empty slice,
// nil/empty map) and the source field is not; non-empty maps are merged key-wise keeping the destination's values.
func TestVerifAuditMergo(t *testing.T) {
	r := auditRand()
	strs := func() []string {
		switch r.Intn(3) {
		case 0:
			return nil
		case 1:
			return []string{}
		}
		return []string{auditString(r), "x"}
	}
	mp := func() map[string]string {
		switch r.Intn(3) {
		case 0:
			return nil
		case 1:
			return map[string]string{}
		}
		return map[string]string{"k" + strconv.Itoa(r.Intn(3)): auditString(r), "shared": auditString(r)}
	}
	gen := func() OptionsConfig {
		return OptionsConfig{HeaderOverrides: mp(), InjectRequestHeaders: mp(), SkipAuthRegex: strs(), AllowedGroups: strs(), AllowedEmailDomains: strs(),
			AllowedEmailAddresses: strs(), TLSSkipVerify: r.Intn(2) == 0, SkipAuthPreflight: r.Intn(2) == 0, PassAccessToken: r.Intn(2) == 0, PreserveHost: r.Intn(2) == 0,
			Timeout: time.Duration(r.Intn(3)) * time.Second, ResetDeadline: time.Duration(r.Intn(2)) * time.Second, FlushInterval: time.Duration(r.Intn(2)) * time.Second,
			SkipRequestSigning: r.Intn(2) == 0, ProviderSlug: []string{"", "okta", "google"}[r.Intn(3)], CookieName: []string{"", "_sso"}[r.Intn(2)]}
	}
	model := func(dst, src OptionsConfig) OptionsConfig {
		out := dst
		dv, sv := reflect.ValueOf(&out).Elem(), reflect.ValueOf(src)
		for i := 0; i < dv.NumField(); i++ {
			d, s := dv.Field(i), sv.Field(i)
			switch d.Kind() {
			case reflect.Map:
				if s.Len() == 0 {
					continue
				}
				if d.Len() == 0 {
					m := reflect.MakeMap(d.Type())
					for _, k := range s.MapKeys() {
						m.SetMapIndex(k, s.MapIndex(k))
					}
					d.Set(m)
					continue
				}
				m := reflect.MakeMap(d.Type())
				for _, k := range s.MapKeys() {
					m.SetMapIndex(k, s.MapIndex(k))
				}
				for _, k := range d.MapKeys() {
					if d.MapIndex(k).Len() > 0 || !m.MapIndex(k).IsValid() {
						m.SetMapIndex(k, d.MapIndex(k))
					}
				}
				d.Set(m)
			case reflect.Slice:
				if d.Len() == 0 && s.Len() > 0 {
					d.Set(s)
				}
			default:
				if d.IsZero() && !s.IsZero() {
					d.Set(s)
				}
			}
		}
		return out
	}
	norm := func(o OptionsConfig) string {
		// nil and empty collections are the same configuration
		return fmt.Sprintf("%v|%v|%q|%q|%q|%q|%v%v%v%v|%v|%v|%v|%v|%q|%q", o.HeaderOverrides, o.InjectRequestHeaders, o.SkipAuthRegex, o.AllowedGroups, o.AllowedEmailDomains, o.AllowedEmailAddresses,
			o.TLSSkipVerify, o.SkipAuthPreflight, o.PassAccessToken, o.PreserveHost, o.Timeout, o.ResetDeadline, o.FlushInterval, o.SkipRequestSigning, o.ProviderSlug, o.CookieName)
	}
	for i := 0; i < auditCases; i++ {
		dst, src := gen(), gen()
		want := model(dst, src)
		got := dst
		// copy maps: mergo writes into the destination's maps
		for _, f := range []*map[string]string{&got.HeaderOverrides, &got.InjectRequestHeaders} {
			if *f != nil {
				c := map[string]string{}
				for k, v := range *f {
					c[k] = v
				}
				*f = c
			}
		}
		if err := mergo.Merge(&got, src); err != nil {
			t.Fatal(err)
		}
		if norm(got) != norm(want) {
			t.Fatalf("mergo.Merge differs from the assumed field-wise contract:\n dst  %s\n src  %s\n got  %s\n want %s", norm(dst), norm(src), norm(got), norm(want))
		}
	}
	report(t, "mergo.Merge field-wise contract on OptionsConfig", auditCases)
}
