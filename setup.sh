#!/bin/sh
# build the verifier offline from files on disk only
set -e
cd "$(dirname "$0")"
export GOFLAGS=-mod=mod GOPROXY=off GOSUMDB=off GOTOOLCHAIN=local CGO_ENABLED=0
mkdir -p bin
[ -d cmd/ssovc ] && go build -o bin/ssovc ./cmd/ssovc
exit 0
