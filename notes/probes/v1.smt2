; RunValidators loop: invariant preserved + post, failed(j) uninterpreted
(set-logic ALL)
(declare-fun failed (Int) Bool)
(declare-const n Int) (declare-const i Int) (declare-const len Int)
(declare-const len2 Int) (declare-const i2 Int)
(assert (and (<= 0 i) (< i n)))
; invariant at loop head
(assert (and (<= 0 len) (<= len i)))
(assert (= (= len i) (forall ((j Int)) (=> (and (<= 0 j) (< j i)) (failed j)))))
; body
(assert (= i2 (+ i 1)))
(assert (= len2 (ite (failed i) (+ len 1) len)))
; negated invariant at back edge
(assert (not (and (<= 0 len2) (<= len2 i2)
   (= (= len2 i2) (forall ((j Int)) (=> (and (<= 0 j) (< j i2)) (failed j)))))))
(check-sat)
