; EmailDomainValidator.validate loop: spec exists j. suffix(lower e, A[j]); invariant: no match among first i
(set-logic ALL)
(declare-fun lower (String) String)
(declare-const A (Array Int String)) (declare-const n Int) (declare-const e String)
(declare-const i Int)
(assert (and (<= 0 i) (<= i n)))
(assert (forall ((j Int)) (=> (and (<= 0 j) (< j i)) (not (str.suffixof (select A j) (lower e))))))
; exit path: i == n, returns Denied ; post: denied <=> not exists
(assert (= i n))
(assert (not (not (exists ((j Int)) (and (<= 0 j) (< j n) (str.suffixof (select A j) (lower e)))))))
(check-sat)
