package auth

// Replay for auth.NewAuthenticator/sink[root_domains_are_the_configured_ones_each_behind_a_dot] (and its loop
// invariant): whatever the configured root-domain list looks like, no entry the redirect checks use may be a
// suffix of a foreign host.

import (
	"strings"
	"testing"
)

func TestVerifReplayRootDomainsBehindADot(t *testing.T) {
	config := testConfiguration(t)
	config.AuthorizeConfig.ProxyConfig.Domains = []string{"example.com", ".dotted.example", "", " ", "io"}
	a, err := NewAuthenticator(config)
	if err != nil {
		t.Skip(err)
	}
	if len(a.ProxyRootDomains) != 5 {
		t.Errorf("5 root domains configured, the authenticator has %d", len(a.ProxyRootDomains))
	}
	for i, d := range a.ProxyRootDomains {
		if !strings.HasPrefix(d, ".") {
			t.Errorf("root domain %d is %q: not behind a dot", i, d)
		}
	}
	for _, uri := range []string{"https://evil.com/steal", "https://notexample.com/", "https://evil.radio/"} {
		if validRedirectURI(uri, a.ProxyRootDomains) {
			t.Errorf("%s is accepted as in-domain under root domains %q", uri, a.ProxyRootDomains)
		}
	}
}
