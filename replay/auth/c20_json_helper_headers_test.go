package auth

// Witness replay for auth.writeJSONResponse/ensures[only_the_content_type_is_set] (and labelled_json): over a real
// connection the JSON error body arrives whole and well-formed for any message, labelled application/json, with no
// header of the helper's own making.

import (
	"encoding/json"
	"io/ioutil"
	"net/http"
	"net/http/httptest"
	"testing"
)

func TestVerifReplayJSONHelperSetsOnlyTheContentType(t *testing.T) {
	for _, msg := range []string{"plain", "accentué — ünïcode", "日本語のメッセージ", "\"quoted\" <b>markup</b>", "  line separator"} {
		srv := httptest.NewServer(http.HandlerFunc(func(rw http.ResponseWriter, req *http.Request) {
			writeJSONResponse(rw, 400, struct {
				Error string `json:"error"`
			}{msg})
		}))
		resp, err := http.Get(srv.URL)
		if err != nil {
			t.Errorf("message %q: %v", msg, err)
			srv.Close()
			continue
		}
		body, err := ioutil.ReadAll(resp.Body)
		resp.Body.Close()
		var got struct {
			Error string `json:"error"`
		}
		if err != nil || json.Unmarshal(body, &got) != nil || got.Error != msg {
			t.Errorf("message %q: the body that arrived is not the JSON document for it: %q (%v)", msg, body, err)
		}
		if ct := resp.Header.Get("Content-Type"); ct != "application/json" {
			t.Errorf("message %q: labelled %q", msg, ct)
		}
		srv.Close()
		rec := httptest.NewRecorder()
		writeJSONResponse(rec, 400, got)
		for k := range rec.Header() {
			if k != "Content-Type" {
				t.Errorf("the helper set response header %s: %q", k, rec.Header().Get(k))
			}
		}
	}
}
