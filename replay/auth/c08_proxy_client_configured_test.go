package auth

// Replays for the C08 configuration obligations (auth.DefaultAuthConfig / (auth.ClientConfig).Validate /
// (auth.Configuration).Validate / auth.NewAuthenticator[gates_are_built_over_the_configured_proxy_credentials]):
// a deployment that configures no proxy client must not pass validation, and the gates compare with the configured
// proxy client.

import "testing"

func TestVerifReplayProxyClientMustBeConfigured(t *testing.T) {
	def := DefaultAuthConfig()
	cc, ok := def.ClientConfigs["proxy"]
	if !ok {
		t.Errorf("the defaults carry no \"proxy\" client entry: validation has nothing to insist on")
	} else if cc.ID != "" || cc.Secret != "" {
		t.Errorf("the default proxy client entry is pre-filled (%q)", cc.ID)
	}
	for _, c := range []ClientConfig{{}, {ID: "id"}, {Secret: "secret"}} {
		if c.Validate() == nil {
			t.Errorf("client config %+v passed validation", c)
		}
	}
	if (ClientConfig{ID: "id", Secret: "secret"}).Validate() != nil {
		t.Errorf("a complete client config was refused")
	}
	conf := Configuration{ClientConfigs: map[string]ClientConfig{"proxy": {ID: "id"}}}
	if conf.Validate() == nil {
		t.Errorf("a configuration whose proxy client has no secret passed validation")
	}
}
