package groups

// Witness replay for (*pkg/groups.FillCache).Update/ensures[loop_registrations_untouched_by_a_fill]: a fill — found,
// failed or "group not found" — leaves the refresh-loop registrations alone, so a second RefreshLoop for the same
// group never starts while the first one exists.

import (
	"errors"
	"testing"
	"time"

	"github.com/datadog/datadog-go/statsd"
)

func TestVerifReplayFillKeepsLoopRegistration(t *testing.T) {
	sd, _ := statsd.New("127.0.0.1:8125")
	for _, fillErr := range []error{nil, errors.New("directory unavailable"), ErrGroupNotFound} {
		fill := func(group string) (MemberSet, error) {
			if fillErr != nil {
				return nil, fillErr
			}
			return MemberSet{"a@example.com": {}}, nil
		}
		c := NewFillCache(fill, time.Hour)
		c.StatsdClient = sd
		c.maxJitter = time.Nanosecond
		if !c.RefreshLoop("eng") {
			t.Fatalf("the first refresh loop did not start")
		}
		c.Update("eng")
		if c.RefreshLoop("eng") {
			t.Errorf("after a fill that ended with %v a second refresh loop started for the same group", fillErr)
		}
		c.Stop()
	}
}
