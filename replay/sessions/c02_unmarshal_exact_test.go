package sessions

// Replay for pkg/sessions.UnmarshalSession/ensures[session_is_exactly_what_was_opened]: what comes out of a sealed
// value is what went in, field for field.

import (
	"reflect"
	"testing"
	"time"

	"github.com/buzzfeed/sso/internal/pkg/aead"
)

func TestVerifReplayUnmarshalSessionExact(t *testing.T) {
	c, err := aead.NewMiscreantCipher([]byte("0123456789abcdef0123456789abcdef0123456789abcdef0123456789abcdef"))
	if err != nil {
		t.Skip(err)
	}
	now := time.Now().Truncate(time.Second).UTC()
	in := &SessionState{ProviderSlug: "Slug", ProviderType: "Type", AccessToken: "AT", RefreshToken: "RT",
		RefreshDeadline: now.Add(time.Hour), LifetimeDeadline: now.Add(2 * time.Hour), ValidDeadline: now.Add(time.Minute),
		GracePeriodStart: now, Email: "Mixed.Case@Example.COM", User: "Mixed.Case", Groups: []string{"B", "a"}, AuthorizedUpstream: "Host.example"}
	sealed, err := MarshalSession(in, c)
	if err != nil {
		t.Skip(err)
	}
	out, err := UnmarshalSession(sealed, c)
	if err != nil {
		t.Fatalf("a value sealed under this cipher did not open: %v", err)
	}
	if !reflect.DeepEqual(in, out) {
		t.Errorf("opened session differs from the sealed one:\n in  %+v\n out %+v", in, out)
	}
}

// ... and for ensures[what_opens_is_returned]: a genuine value opens whatever the session says — deadlines long
// past, empty fields.
func TestVerifReplayWhatOpensIsReturned(t *testing.T) {
	c, err := aead.NewMiscreantCipher([]byte("0123456789abcdef0123456789abcdef0123456789abcdef0123456789abcdef"))
	if err != nil {
		t.Skip(err)
	}
	past := time.Now().Add(-365 * 24 * time.Hour).Truncate(time.Second).UTC()
	for _, in := range []*SessionState{
		{Email: "u@example.com", LifetimeDeadline: past, RefreshDeadline: past, ValidDeadline: past},
		{},
		{Email: "", AccessToken: "at", LifetimeDeadline: time.Now().Add(-time.Minute).Truncate(time.Second).UTC()},
	} {
		sealed, err := MarshalSession(in, c)
		if err != nil {
			t.Skip(err)
		}
		out, err := UnmarshalSession(sealed, c)
		if err != nil || out == nil {
			t.Errorf("a genuine sealed value (%+v) was refused: %v", in, err)
			continue
		}
		if !reflect.DeepEqual(in, out) {
			t.Errorf("opened session differs: in %+v out %+v", in, out)
		}
	}
}
