package aead

// Replay for obligation (*pkg/aead.MiscreantCipher).Unmarshal/ensures[only_unmodified]: a sealed value is
// modified without touching the bytes it decodes to — the unused trailing bits of the last base64
// character are changed, or a line break is inserted. A modified string must not open.

import "testing"

func TestVerifReplayNonCanonicalEncoding(t *testing.T) {
	c, err := NewMiscreantCipher(GenerateKey())
	if err != nil {
		t.Fatal(err)
	}
	type S struct{ A string }
	const alphabet = "ABCDEFGHIJKLMNOPQRSTUVWXYZabcdefghijklmnopqrstuvwxyz0123456789-_"
	for n := 0; n < 6; n++ {
		sealed, err := c.Marshal(S{A: "hello"[:n%5]})
		if err != nil {
			t.Fatal(err)
		}
		last := sealed[len(sealed)-1]
		for i := 0; i < 64; i++ {
			if alphabet[i] == last {
				continue
			}
			mod := sealed[:len(sealed)-1] + string(alphabet[i])
			var out S
			if err := c.Unmarshal(mod, &out); err == nil {
				t.Errorf("modified sealed value opened: last character %q -> %q (len %d), data %+v", last, alphabet[i], len(sealed), out)
			}
		}
		var out S
		if err := c.Unmarshal(sealed[:10]+"\n"+sealed[10:], &out); err == nil {
			t.Errorf("sealed value with an inserted line break opened, data %+v", out)
		}
	}
}
