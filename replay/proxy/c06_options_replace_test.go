package proxy

// Replay for the option closures' obligations (proxy.SetValidators$1 / SetProvider$1 / SetUpstreamConfig$1 /
// SetProxyHandler$1 ".._exactly_the_given_.."): proxy.New applies a growing option list, so an option applied after
// an earlier one of its kind must leave exactly what it was given.

import (
	"net/http"
	"reflect"
	"testing"

	"github.com/buzzfeed/sso/internal/pkg/validators"
	"github.com/buzzfeed/sso/internal/proxy/providers"
)

func TestVerifReplayOptionsReplace(t *testing.T) {
	op := &OAuthProxy{}
	v1 := []validators.Validator{validators.NewEmailDomainValidator([]string{"one.example"})}
	v2 := []validators.Validator{validators.NewEmailAddressValidator([]string{"only@two.example"})}
	for _, vs := range [][]validators.Validator{v1, v2, {}} {
		if err := SetValidators(vs)(op); err != nil {
			t.Fatal(err)
		}
		if len(op.Validators) != len(vs) {
			t.Errorf("after SetValidators(%d validators) the proxy has %d", len(vs), len(op.Validators))
		}
		for i := range vs {
			if i < len(op.Validators) && !reflect.DeepEqual(op.Validators[i], vs[i]) {
				t.Errorf("validator %d is not the one given", i)
			}
		}
	}
	p1, p2 := &providers.TestProvider{}, &providers.TestProvider{}
	for _, p := range []providers.Provider{p1, p2} {
		_ = SetProvider(p)(op)
		if op.provider != p {
			t.Errorf("SetProvider did not install the provider it was given")
		}
	}
	u1, u2 := &UpstreamConfig{Service: "one"}, &UpstreamConfig{Service: "two"}
	for _, u := range []*UpstreamConfig{u1, u2} {
		_ = SetUpstreamConfig(u)(op)
		if op.upstreamConfig != u {
			t.Errorf("SetUpstreamConfig did not install the configuration it was given")
		}
	}
	h1, h2 := http.NewServeMux(), http.NewServeMux()
	for _, h := range []http.Handler{h1, h2} {
		_ = SetProxyHandler(h)(op)
		if op.handler != h {
			t.Errorf("SetProxyHandler did not install the handler it was given")
		}
	}
}
