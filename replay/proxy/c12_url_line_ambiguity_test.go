package proxy

// Replay for obligation lemma/C12_url_line_determines_path_and_query/ensures[same_path_query_fragment] (known finding
// K3). The solver's model: path "/a?b" with empty query and path "/a" with query "b" have the same <URL> line. As
// requests: GET /a%3Fb (the decoded path contains '?') and GET /a?b. The upstream receives two different requests
// (different path, different query) — but the signature of one verifies over the other: changing path and query
// this way does not invalidate it.

import (
	"net/http/httptest"
	"testing"
)

func TestVerifReplayURLLineAmbiguity(t *testing.T) {
	r1 := httptest.NewRequest("GET", "http://svc.example/a%3Fb", nil)
	r2 := httptest.NewRequest("GET", "http://svc.example/a?b", nil)
	if r1.URL.Path == r2.URL.Path && r1.URL.RawQuery == r2.URL.RawQuery {
		t.Skip("the two requests are the same request: witness not applicable")
	}
	h1, err1 := mapRequestToHashInput(r1)
	h2, err2 := mapRequestToHashInput(r2)
	if err1 != nil || err2 != nil {
		t.Skip("representation failed")
	}
	if h1 == h2 {
		t.Errorf("requests with path %q query %q and path %q query %q have the same signed representation %q: a signature for one verifies for the other", r1.URL.Path, r1.URL.RawQuery, r2.URL.Path, r2.URL.RawQuery, h1)
	}
}
