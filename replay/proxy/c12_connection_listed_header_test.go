package proxy

// Replay for obligation (*proxy.Director).DirectorFunc$1/ensures[no_covered_header_is_hop_by_hop]: the model is a
// request whose Connection header names a covered header. httputil.ReverseProxy treats a header named in
// Connection as hop-by-hop and drops it after the request was signed, so the signature no longer verifies over
// the request the upstream receives. The backend verifies the signature with an independent implementation of
// the documented canonical form.

import (
	"crypto"
	"crypto/rsa"
	"crypto/sha256"
	"crypto/x509"
	"encoding/base64"
	"encoding/pem"
	"io/ioutil"
	"net/http"
	"net/http/httptest"
	"net/url"
	"strings"
	"testing"
)

func verifCanonical(r *http.Request, body []byte) string {
	var lines []string
	for _, h := range []string{"Content-Length", "Content-Md5", "Content-Type", "Date", "Authorization", "X-Forwarded-User", "X-Forwarded-Email", "X-Forwarded-Groups", "X-Forwarded-Access-Token", "Cookie"} {
		var vals []string
		for _, v := range r.Header[h] {
			if v != "" {
				vals = append(vals, v)
			}
		}
		if len(vals) > 0 {
			lines = append(lines, strings.Join(vals, ","))
		}
	}
	u := r.URL.Path
	if r.URL.RawQuery != "" {
		u += "?" + r.URL.RawQuery
	}
	if r.URL.Fragment != "" {
		u += "#" + r.URL.Fragment
	}
	lines = append(lines, u)
	if r.Body != nil {
		lines = append(lines, string(body))
	}
	return strings.Join(lines, "\n")
}

func TestVerifReplayConnectionListedCoveredHeader(t *testing.T) {
	key, err := ioutil.ReadFile("testdata/private_key.pem")
	if err != nil {
		t.Skip("no test key")
	}
	signer, err := NewRequestSigner(string(key))
	if err != nil {
		t.Skipf("signer: %v", err)
	}
	_, pubPEM := signer.PublicKey()
	blk, _ := pem.Decode([]byte(pubPEM))
	pub, err := x509.ParsePKCS1PublicKey(blk.Bytes)
	if err != nil {
		t.Skipf("public key: %v", err)
	}
	var verdict error
	var sawDate []string
	reached := false
	backend := httptest.NewServer(http.HandlerFunc(func(w http.ResponseWriter, r *http.Request) {
		reached = true
		body, _ := ioutil.ReadAll(r.Body)
		sawDate = r.Header["Date"]
		sig, _ := base64.URLEncoding.DecodeString(r.Header.Get("Sso-Signature"))
		sum := sha256.Sum256([]byte(verifCanonical(r, body)))
		verdict = rsa.VerifyPKCS1v15(pub, crypto.SHA256, sum[:], sig)
		w.WriteHeader(200)
	}))
	defer backend.Close()
	backendURL, _ := url.Parse(backend.URL)
	config := &UpstreamConfig{Route: &SimpleRoute{ToURL: backendURL}, CookieName: "_sso_proxy"}
	rp, err := NewUpstreamReverseProxy(config, signer)
	if err != nil {
		t.Fatal(err)
	}
	front := httptest.NewServer(rp)
	defer front.Close()
	req, _ := http.NewRequest("POST", front.URL+"/path?q=1", strings.NewReader("payload"))
	req.Header.Set("Date", "Mon, 28 Sep 2026 00:00:00 GMT")
	req.Header.Set("Content-Type", "text/plain")
	req.Header.Set("Connection", "Date")
	resp, err := http.DefaultTransport.RoundTrip(req)
	if err != nil {
		t.Skipf("round trip: %v", err)
	}
	resp.Body.Close()
	if !reached {
		t.Skip("request did not reach the backend")
	}
	if verdict != nil {
		t.Errorf("the signature does not verify over the request the upstream received (Date header as received: %q): %v", sawDate, verdict)
	}

	// the signature headers themselves named in Connection: the upstream must still receive a verifying signature
	reached, verdict = false, nil
	req2, _ := http.NewRequest("POST", front.URL+"/path?q=1", strings.NewReader("payload"))
	req2.Header.Set("Connection", "Sso-Signature, kid")
	resp2, err := http.DefaultTransport.RoundTrip(req2)
	if err != nil {
		t.Skipf("round trip: %v", err)
	}
	resp2.Body.Close()
	if reached && verdict != nil {
		t.Errorf("a request naming the signature headers in Connection reached the upstream without a verifying signature: %v", verdict)
	}
}
