package proxy

// Replay for obligations proxy.mapRequestToHashInput/ensures[body_put_back_intact] and
// proxy.newSigningHandler$1/sink[forwarded_only_when_signed]: the solver's model is a body whose read fails
// (ReadAll returns an error and the bytes read so far). A client sends a chunked body whose second chunk is
// malformed; the request must not reach the upstream as a complete, signed request with part of its body.

import (
	"io/ioutil"
	"net"
	"net/http"
	"net/http/httptest"
	"net/url"
	"sync"
	"testing"
	"time"
)

func TestVerifReplayTruncatedBodyForwardedSigned(t *testing.T) {
	var mu sync.Mutex
	var gotBody, gotSig []string
	backend := httptest.NewServer(http.HandlerFunc(func(w http.ResponseWriter, r *http.Request) {
		b, err := ioutil.ReadAll(r.Body)
		mu.Lock()
		if err == nil {
			gotBody = append(gotBody, string(b))
			gotSig = append(gotSig, r.Header.Get("Sso-Signature"))
		}
		mu.Unlock()
		w.WriteHeader(200)
	}))
	defer backend.Close()
	backendURL, _ := url.Parse(backend.URL)
	key, err := ioutil.ReadFile("testdata/private_key.pem")
	if err != nil {
		t.Skip("no test key")
	}
	signer, err := NewRequestSigner(string(key))
	if err != nil {
		t.Skipf("signer: %v", err)
	}
	config := &UpstreamConfig{Route: &SimpleRoute{ToURL: backendURL}, CookieName: "_sso_proxy"}
	rp, err := NewUpstreamReverseProxy(config, signer)
	if err != nil {
		t.Fatal(err)
	}
	front := httptest.NewServer(rp)
	defer front.Close()

	conn, err := net.Dial("tcp", front.Listener.Addr().String())
	if err != nil {
		t.Fatal(err)
	}
	// the second chunk is malformed: the body read fails after "hello" while the connection stays open
	conn.Write([]byte("POST /upload HTTP/1.1\r\nHost: x\r\nTransfer-Encoding: chunked\r\n\r\n5\r\nhello\r\nZZ\r\nworld\r\n0\r\n\r\n"))
	conn.SetReadDeadline(time.Now().Add(2 * time.Second))
	reply, _ := ioutil.ReadAll(conn)
	conn.Close()
	t.Logf("client saw: %.60q", reply)

	mu.Lock()
	defer mu.Unlock()
	for i, b := range gotBody {
		t.Errorf("the upstream received a complete request with the truncated body %q and Sso-Signature %q: the body did not arrive intact, yet it was forwarded and signed", b, gotSig[i])
	}
}

// The same through the per-upstream HMAC signer (the hmacauth library re-buffers what it could read and drops the error).
func TestVerifReplayTruncatedBodyForwardedHMAC(t *testing.T) {
	var mu sync.Mutex
	var gotBody, gotSig []string
	backend := httptest.NewServer(http.HandlerFunc(func(w http.ResponseWriter, r *http.Request) {
		b, err := ioutil.ReadAll(r.Body)
		mu.Lock()
		if err == nil {
			gotBody = append(gotBody, string(b))
			gotSig = append(gotSig, r.Header.Get("Sso-Signature"))
		}
		mu.Unlock()
		w.WriteHeader(200)
	}))
	defer backend.Close()
	backendURL, _ := url.Parse(backend.URL)
	key, err := ioutil.ReadFile("testdata/private_key.pem")
	if err != nil {
		t.Skip("no test key")
	}
	signer, err := NewRequestSigner(string(key))
	if err != nil {
		t.Skipf("signer: %v", err)
	}
	hm, herr := generateHmacAuth("sha256:secret")
	if herr != nil {
		t.Skip(herr)
	}
	config := &UpstreamConfig{Route: &SimpleRoute{ToURL: backendURL}, CookieName: "_sso_proxy", HMACAuth: hm}
	rp, err := NewUpstreamReverseProxy(config, signer)
	if err != nil {
		t.Fatal(err)
	}
	front := httptest.NewServer(rp)
	defer front.Close()

	conn, err := net.Dial("tcp", front.Listener.Addr().String())
	if err != nil {
		t.Fatal(err)
	}
	// the second chunk is malformed: the body read fails after "hello" while the connection stays open
	conn.Write([]byte("POST /upload HTTP/1.1\r\nHost: x\r\nTransfer-Encoding: chunked\r\n\r\n5\r\nhello\r\nZZ\r\nworld\r\n0\r\n\r\n"))
	conn.SetReadDeadline(time.Now().Add(2 * time.Second))
	reply, _ := ioutil.ReadAll(conn)
	conn.Close()
	t.Logf("client saw: %.60q", reply)

	mu.Lock()
	defer mu.Unlock()
	for i, b := range gotBody {
		t.Errorf("the upstream received a complete request with the truncated body %q and Sso-Signature %q: the body did not arrive intact, yet it was forwarded and signed", b, gotSig[i])
	}
}
