package proxy

// Replay for obligation (*proxy.OAuthProxy).Authenticate/ensures[rejected_by_the_rules_only_when_no_rule_admits]
// (known finding K1): two rule kinds are configured and the user satisfies one of them. The login gate
// (OAuthCallback: rejected only when every validator fails) admits the user; the per-request gate refuses the
// same user with the same facts — the verdict is not the same at login and on a later request.

import (
	"net/http/httptest"
	"testing"

	"github.com/buzzfeed/sso/internal/pkg/sessions"
	"github.com/buzzfeed/sso/internal/pkg/validators"
)

func TestVerifReplayAnyOfAtLoginAllOfLater(t *testing.T) {
	vs := []validators.Validator{
		validators.NewEmailAddressValidator([]string{"a@x.io"}),
		validators.NewEmailDomainValidator([]string{"corp.com"}),
	}
	s := testSession()
	s.Email = "a@x.io"
	errs := validators.RunValidators(vs, s)
	admittedAtLogin := len(errs) != len(vs) // the condition OAuthCallback uses
	if !admittedAtLogin {
		t.Skip("the login gate refuses this user: witness not applicable")
	}
	proxy, close := testNewOAuthProxy(t, SetValidators(vs), setSessionStore(&sessions.MockSessionStore{Session: s}))
	defer close()
	rw := httptest.NewRecorder()
	req := httptest.NewRequest("GET", "https://localhost/", nil)
	if err := proxy.Authenticate(rw, req); err == ErrUserNotAuthorized {
		t.Errorf("a user who satisfies one configured rule (listed address) is admitted at login (%d of %d validators failed) but refused on the next request: %v", len(errs), len(vs), err)
	}
}
