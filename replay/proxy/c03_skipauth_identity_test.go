package proxy

// Replay for obligation (*proxy.OAuthProxy).Proxy/sink[skip_auth_carries_no_identity]:
// a skip-auth request carrying client-chosen identity headers, through the real OAuthProxy
// handler and the real reverse proxy, to a recording backend. Fails when the backend sees them.

import (
	"net/http"
	"net/http/httptest"
	"net/url"
	"regexp"
	"testing"

	"github.com/buzzfeed/sso/internal/pkg/sessions"
)

func TestVerifReplaySkipAuthIdentity(t *testing.T) {
	var got http.Header
	backend := httptest.NewServer(http.HandlerFunc(func(w http.ResponseWriter, r *http.Request) {
		got = r.Header.Clone()
		w.WriteHeader(200)
	}))
	defer backend.Close()
	backendURL, _ := url.Parse(backend.URL)
	config := &UpstreamConfig{
		Route:                 &SimpleRoute{ToURL: backendURL},
		SkipAuthCompiledRegex: []*regexp.Regexp{regexp.MustCompile(`^\/allow$`)},
		SkipRequestSigning:    true,
	}
	rp, err := NewUpstreamReverseProxy(config, nil)
	if err != nil {
		t.Fatal(err)
	}
	proxy, close := testNewOAuthProxy(t, SetProxyHandler(rp), SetUpstreamConfig(config),
		setSessionStore(&sessions.MockSessionStore{LoadError: http.ErrNoCookie}), setCookieSecure(true))
	defer close()
	rw := httptest.NewRecorder()
	req := httptest.NewRequest("GET", "https://localhost/allow", nil)
	req.Header.Set("X-Forwarded-User", "admin")
	req.Header.Set("X-Forwarded-Email", "admin@corp.com")
	req.Header.Set("X-Forwarded-Groups", "admins")
	req.Header.Set("X-Forwarded-Access-Token", "tok")
	proxy.Handler().ServeHTTP(rw, req)
	if got == nil {
		t.Skipf("request did not reach the backend (status %d): witness not applicable", rw.Code)
	}
	for _, h := range []string{"X-Forwarded-User", "X-Forwarded-Email", "X-Forwarded-Groups", "X-Forwarded-Access-Token"} {
		if v, ok := got[h]; ok {
			t.Errorf("unauthenticated skip-auth request reached the upstream with client-chosen %s=%q", h, v)
		}
	}
}
