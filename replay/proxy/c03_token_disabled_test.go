package proxy

// Replay for obligation (*proxy.OAuthProxy).Authenticate/ensures[token_absent_when_disabled]:
// an authenticated request with pass_access_token off and a client-chosen X-Forwarded-Access-Token.

import (
	"net/http"
	"net/http/httptest"
	"net/url"
	"testing"

	"github.com/buzzfeed/sso/internal/pkg/sessions"
)

func TestVerifReplayTokenHeaderDisabled(t *testing.T) {
	var got http.Header
	backend := httptest.NewServer(http.HandlerFunc(func(w http.ResponseWriter, r *http.Request) {
		got = r.Header.Clone()
		w.WriteHeader(200)
	}))
	defer backend.Close()
	backendURL, _ := url.Parse(backend.URL)
	config := &UpstreamConfig{Route: &SimpleRoute{ToURL: backendURL}, SkipRequestSigning: true, PassAccessToken: false}
	rp, err := NewUpstreamReverseProxy(config, nil)
	if err != nil {
		t.Fatal(err)
	}
	proxy, close := testNewOAuthProxy(t, SetProxyHandler(rp), SetUpstreamConfig(config),
		setSessionStore(&sessions.MockSessionStore{Session: testSession()}), setCookieSecure(true))
	defer close()
	rw := httptest.NewRecorder()
	req := httptest.NewRequest("GET", "https://localhost/other", nil)
	req.Header.Set("X-Forwarded-Access-Token", "spoofed-token")
	proxy.Handler().ServeHTTP(rw, req)
	if got == nil {
		t.Skipf("request did not reach the backend (status %d): witness not applicable", rw.Code)
	}
	if v, ok := got["X-Forwarded-Access-Token"]; ok {
		t.Errorf("pass_access_token is off but the upstream received client-chosen X-Forwarded-Access-Token=%q", v)
	}
}
