package proxy

// Replays for proxy.urlParse/ensures[scheme_put_in_front_exactly_when_there_is_none] and the obligations of
// proxy.parseEnvironment: bare hosts of every spelling must land in URL.Host; an SSO_CONFIG_ variable keeps its
// whole value, lower-cased name, last entry wins.

import (
	"encoding/json"
	"net/url"
	"os"
	"reflect"
	"strings"
	"testing"
)

// verifModelInputs: the solver's counterexamples projected onto the function's parameters (set by the check).
func verifModelInputs() []map[string]interface{} {
	var ms []map[string]interface{}
	_ = json.Unmarshal([]byte(os.Getenv("VERIF_MODEL_INPUTS")), &ms)
	return ms
}

// the contract's right-hand side, evaluated concretely: what must be handed to url.Parse
func TestVerifReplayBareHostLandsInHost(t *testing.T) {
	for _, m := range verifModelInputs() {
		scheme, _ := m["scheme"].(string)
		uri, ok := m["uri"].(string)
		if !ok {
			continue
		}
		want := uri
		if !strings.Contains(uri, "://") {
			want = scheme + "://" + uri
		}
		wu, werr := url.Parse(want)
		gu, gerr := urlParse(scheme, uri)
		if (werr == nil) != (gerr == nil) || (werr == nil && wu.String() != gu.String()) {
			t.Errorf("solver model scheme=%q uri=%q: urlParse gives %v (%v), parsing %q gives %v (%v)", scheme, uri, gu, gerr, want, wu, werr)
		}
	}
	for _, h := range []string{"httpbin.sso.dev", "http2-debug.sso.dev:8080", "https.example.com", "foo.sso.dev", "h.example.com/p?next=a://b"} {
		u, err := urlParse("https", h)
		if err != nil {
			continue
		}
		if contains := len(h) >= 3 && (verifIndexOf(h, "://") >= 0); contains {
			continue
		}
		if u.Scheme != "https" || u.Host == "" || verifIndexOf(h, u.Host) != 0 {
			t.Errorf("urlParse(https, %q) = scheme %q host %q path %q opaque %q: the host is not in URL.Host", h, u.Scheme, u.Host, u.Path, u.Opaque)
		}
	}
	if u, err := urlParse("https", "http://x.example.com"); err == nil && (u.Scheme != "http" || u.Host != "x.example.com") {
		t.Errorf("a value with its own scheme must be parsed as it stands, got %q %q", u.Scheme, u.Host)
	}
}

func verifIndexOf(s, sub string) int {
	for i := 0; i+len(sub) <= len(s); i++ {
		if s[i:i+len(sub)] == sub {
			return i
		}
	}
	return -1
}

func TestVerifReplayTemplateVariablesWhole(t *testing.T) {
	got := parseEnvironment([]string{"PATH=/bin", "SSO_CONFIG_SIGNING_KEY=sha256:a=b==", "SSO_CONFIG_Empty=", "SSO_CONFIG_X=1", "SSO_CONFIG_X=2=3"})
	want := map[string]string{"signing_key": "sha256:a=b==", "empty": "", "x": "2=3"}
	if !reflect.DeepEqual(got, want) {
		t.Errorf("parseEnvironment = %v, want %v", got, want)
	}
}
