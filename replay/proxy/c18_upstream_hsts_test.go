package proxy

// Replay for obligation proxy.NewUpstreamReverseProxy$1/ensures[hsts_removed]: an upstream that sends its
// own Strict-Transport-Security value. The client must see only the proxy's value.

import (
	"net/http"
	"net/http/httptest"
	"net/url"
	"regexp"
	"testing"

	"github.com/buzzfeed/sso/internal/pkg/sessions"
)

func TestVerifReplayUpstreamHSTS(t *testing.T) {
	backend := httptest.NewServer(http.HandlerFunc(func(w http.ResponseWriter, r *http.Request) {
		w.Header().Set("Strict-Transport-Security", "max-age=0")
		w.WriteHeader(200)
	}))
	defer backend.Close()
	backendURL, _ := url.Parse(backend.URL)
	config := &UpstreamConfig{
		Route:                 &SimpleRoute{ToURL: backendURL},
		SkipAuthCompiledRegex: []*regexp.Regexp{regexp.MustCompile(`^\/allow$`)},
		SkipRequestSigning:    true,
	}
	rp, err := NewUpstreamReverseProxy(config, nil)
	if err != nil {
		t.Fatal(err)
	}
	proxy, close := testNewOAuthProxy(t, SetProxyHandler(rp), SetUpstreamConfig(config),
		setSessionStore(&sessions.MockSessionStore{LoadError: http.ErrNoCookie}), setCookieSecure(true))
	defer close()
	rw := httptest.NewRecorder()
	req := httptest.NewRequest("GET", "https://localhost/allow", nil)
	proxy.Handler().ServeHTTP(rw, req)
	if rw.Code != 200 {
		t.Skipf("request did not reach the backend (status %d): witness not applicable", rw.Code)
	}
	got := rw.Header()["Strict-Transport-Security"]
	if len(got) != 1 || got[0] != "max-age=31536000" {
		t.Errorf("an upstream replaced or weakened the proxy's HSTS value: response carries %q", got)
	}
}
