package proxy

// Replay for obligations proxy.resolveUpstreamConfig/ensures[*_kept_unless_stated]: a cluster block that
// states only `options.timeout` must leave the default block's restrictions (allowed_groups,
// skip_auth_regex, ...) in force.

import "testing"

func TestVerifReplayClusterOptionsFieldwise(t *testing.T) {
	raw := []byte(`
- service: foo
  default:
    from: foo.sso.dev
    to: foo.dev
    options:
      allowed_groups:
        - admins
      allowed_email_domains:
        - corp.example
      allowed_email_addresses:
        - alice@corp.example
      skip_auth_regex:
        - ^\/ok$
  prod:
    options:
      timeout: 10s
`)
	def := &OptionsConfig{AllowedEmailDomains: []string{"everyone.example"}, CookieName: "_sso_proxy"}
	cfgs, err := loadServiceConfigs(raw, "prod", "http", map[string]string{}, def)
	if err != nil {
		t.Fatal(err)
	}
	if len(cfgs) != 1 {
		t.Fatalf("expected one upstream, got %d", len(cfgs))
	}
	c := cfgs[0]
	if len(c.AllowedGroups) != 1 || c.AllowedGroups[0] != "admins" {
		t.Errorf("default block's allowed_groups lost: %v", c.AllowedGroups)
	}
	if len(c.AllowedEmailDomains) != 1 || c.AllowedEmailDomains[0] != "corp.example" {
		t.Errorf("default block's allowed_email_domains lost (upstream now open to %v)", c.AllowedEmailDomains)
	}
	if len(c.AllowedEmailAddresses) != 1 {
		t.Errorf("default block's allowed_email_addresses lost: %v", c.AllowedEmailAddresses)
	}
	if len(c.SkipAuthCompiledRegex) != 1 {
		t.Errorf("default block's skip_auth_regex lost: %v", c.SkipAuthCompiledRegex)
	}
	if c.Timeout.String() != "10s" {
		t.Errorf("cluster timeout not applied: %v", c.Timeout)
	}
}
