package proxy

// Witness for the assumed library contract assumed[reverse_proxy_keeps_preset_headers] (C18): the proof that every
// proxied response carries the proxy's security headers composes "the middleware sets them before the reverse proxy
// runs" with "httputil.ReverseProxy only adds the (scrubbed) upstream headers to what is already on the response".
// The second half is an assumption about net/http/httputil. This test puts it to the real library: upstreams that
// answer plainly, that try to override the headers, and that send an informational (1xx) response first.

import (
	"net/http"
	"net/http/httptest"
	"net/url"
	"testing"
)

func TestVerifWitnessReverseProxyKeepsPresetHeadersPlain(t *testing.T) {
	verifWitnessPresetHeaders(t, "plain")
}

func TestVerifWitnessReverseProxyKeepsPresetHeadersOverrides(t *testing.T) {
	verifWitnessPresetHeaders(t, "overrides")
}

func TestVerifWitnessReverseProxyKeepsPresetHeadersInformational(t *testing.T) {
	verifWitnessPresetHeaders(t, "early-hints")
}

func verifWitnessPresetHeaders(t *testing.T, only string) {
	for _, mode := range []string{only} {
		upstream := httptest.NewServer(http.HandlerFunc(func(rw http.ResponseWriter, req *http.Request) {
			switch mode {
			case "overrides":
				rw.Header().Set("X-Frame-Options", "ALLOWALL")
				rw.Header().Set("Strict-Transport-Security", "max-age=0")
			case "early-hints":
				rw.Header().Set("Link", "</style.css>; rel=preload; as=style")
				rw.WriteHeader(http.StatusEarlyHints)
			}
			rw.WriteHeader(200)
			rw.Write([]byte("content"))
		}))
		to, _ := url.Parse(upstream.URL)
		for _, timeout := range []bool{false, true} {
			config := &UpstreamConfig{Route: &SimpleRoute{ToURL: to}, SkipRequestSigning: true}
			if timeout {
				config.Timeout = 5e9
			}
			h, err := NewUpstreamReverseProxy(config, nil)
			if err != nil {
				t.Skip(err)
			}
			front := httptest.NewServer(requireHTTPS(setSecurityHeaders(h)))
			req, _ := http.NewRequest("GET", front.URL+"/", nil)
			req.Header.Set("X-Forwarded-Proto", "https")
			resp, err := http.DefaultClient.Do(req)
			if err != nil {
				t.Skip(err)
			}
			resp.Body.Close()
			for k, v := range securityHeaders {
				if got := resp.Header.Get(k); got != v {
					t.Errorf("upstream %s, timeout handler %v: proxied response has %s = %q, the proxy's value is %q", mode, timeout, k, got, v)
				}
			}
			if got := resp.Header.Get("Strict-Transport-Security"); got != "max-age=31536000" {
				t.Errorf("upstream %s, timeout handler %v: proxied response has Strict-Transport-Security = %q", mode, timeout, got)
			}
			front.Close()
		}
		upstream.Close()
	}
}
