package proxy

// Witness replays for proxy.rewriteRoute/ensures[pattern_compiled_as_configured],
// proxy.resolveUpstreamConfig/ensures[service_name_is_the_cleaned_configured_name] and
// proxy.resolveTemplates/sink[every_occurrence_of_the_braced_name_gets_the_value].

import (
	"regexp"
	"strings"
	"testing"
)

var regexpCompileForReplay = regexp.Compile

func TestVerifReplayRewritePatternAsConfigured(t *testing.T) {
	for _, from := range []string{`^(admin|billing)\.sso\.test`, `(.*)\.sso\.test$`, `svc\.sso\.test`, `^a$`} {
		r, err := rewriteRoute("https", RouteConfig{From: from, To: "$1.internal"})
		if err != nil {
			t.Skip(err)
		}
		if got := r.FromRegex.String(); got != from {
			t.Errorf("rewrite route configured with pattern %q matches with %q", from, got)
		}
		for _, host := range []string{"admin.sso.test.", "billing.sso.test:8443", "x.svc.sso.test", "a"} {
			want, _ := regexpMatch(from, host)
			if r.FromRegex.MatchString(host) != want {
				t.Errorf("pattern %q, host %q: the route matches %v, the configured pattern %v", from, host, !want, want)
			}
		}
	}
}

func TestVerifReplayServiceNameCleanedBeforeValidation(t *testing.T) {
	for name, want := range map[string]string{" my  svc ": "my_svc", "svc": "svc", "   ": "", "\t\n": ""} {
		svc := &ServiceConfig{Service: name, ClusterConfigs: map[string]*UpstreamConfig{
			"default": {RouteConfig: RouteConfig{From: "a.sso.test", To: "a.internal"}},
		}}
		up, err := resolveUpstreamConfig(svc, "prod")
		if err != nil || up == nil {
			continue
		}
		if up.Service != want {
			t.Errorf("service %q resolves to an upstream named %q, the cleaned name is %q", name, up.Service, want)
		}
		if up.Service == "" && validateUpstreamConfig(up) == nil {
			t.Errorf("an upstream without a service name passed validation")
		}
		if strings.TrimSpace(name) == "" && validateUpstreamConfig(up) == nil {
			t.Errorf("service %q (blank) passed validation as %q", name, up.Service)
		}
	}
}

func TestVerifReplayTemplateVariablesOfAnyName(t *testing.T) {
	raw := []byte("to: payments--$1.{{data-center}}.dev\ngroups: [\"{{team.group}}\", \"{{cluster}}\", \"{{cluster}}\"]\n")
	got := string(resolveTemplates(raw, map[string]string{"data-center": "us-east", "team.group": "payments", "cluster": "prod"}))
	want := "to: payments--$1.us-east.dev\ngroups: [\"payments\", \"prod\", \"prod\"]\n"
	if got != want {
		t.Errorf("resolveTemplates left variables unsubstituted:\n%s", got)
	}
}

func regexpMatch(pattern, s string) (bool, error) {
	re, err := regexpCompileForReplay(pattern)
	if err != nil {
		return false, err
	}
	return re.MatchString(s), nil
}
