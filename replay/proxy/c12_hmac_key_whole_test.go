package proxy

// Replay for obligation proxy.generateHmacAuth/ensures[key_is_everything_after_the_algorithm]: a configured
// "<hash>:<key>" whose key itself contains ':'. Either the spec is refused, or the signer it yields signs with the
// whole configured key — the signature must equal the one an upstream computes with that key.

import (
	"crypto"
	"encoding/json"
	"os"
	"strings"
	"net/http/httptest"
	"testing"

	"github.com/18F/hmacauth"
)

func TestVerifReplayHMACKeyWhole(t *testing.T) {
	type spec struct{ spec, key string }
	cases := []spec{{"sha1:ab:cd", "ab:cd"}, {"sha1:secret:", "secret:"}, {"sha1::x", ":x"}, {"sha1:plain", "plain"}}
	// the solver's counterexamples first: the algorithm name is replaced by a supported one, the key part kept
	var ms []map[string]interface{}
	_ = json.Unmarshal([]byte(os.Getenv("VERIF_MODEL_INPUTS")), &ms)
	for _, m := range ms {
		if k, ok := m["signatureKey"].(string); ok {
			if i := strings.Index(k, ":"); i >= 0 {
				cases = append([]spec{{"sha1" + k[i:], k[i+1:]}}, cases...)
			}
		}
	}
	for _, tc := range cases {
		auth, err := generateHmacAuth(tc.spec)
		if err != nil {
			continue // refused: fail-closed
		}
		req := httptest.NewRequest("GET", "http://upstream.example/a?b=c", nil)
		req.Header.Set("X-Forwarded-User", "u")
		ref := hmacauth.NewHmacAuth(crypto.SHA1, []byte(tc.key), HMACSignatureHeader, SignatureHeaders)
		if got, want := auth.RequestSignature(req), ref.RequestSignature(req); got != want {
			t.Errorf("signing key spec %q was accepted, but the signature is not the one the configured key %q gives", tc.spec, tc.key)
		}
	}
}
