package proxy

// Replay for obligation proxy.New/sink[provider_is_the_upstreams_own] (F6): an upstream whose configuration states
// provider_slug: okta in a deployment whose default slug is google. The sign-in redirect for that upstream's host
// must go to the okta provider of the authenticator, the one the upstream names.

import (
	"net/http/httptest"
	"strings"
	"testing"
)

func TestVerifReplayPerUpstreamProviderSlug(t *testing.T) {
	raw := []byte(`
- service: foo
  default:
    from: foo.sso.dev
    to: foo.dev
    options:
      allowed_groups:
        - admins
      provider_slug: okta
`)
	def := &OptionsConfig{AllowedEmailDomains: []string{"corp.com"}, ProviderSlug: "google", CookieName: "_sso_proxy"}
	cfgs, err := loadServiceConfigs(raw, "dev", "http", map[string]string{}, def)
	if err != nil || len(cfgs) != 1 {
		t.Skipf("configuration did not load: %v", err)
	}
	if cfgs[0].ProviderSlug != "okta" {
		t.Skipf("the upstream's resolved slug is %q: witness not applicable", cfgs[0].ProviderSlug)
	}
	conf := DefaultProxyConfig()
	conf.UpstreamConfigs.DefaultConfig.ProviderSlug = "google"
	conf.UpstreamConfigs.upstreamConfigs = cfgs
	conf.ProviderConfig.ProviderURLConfig.External = "https://sso-auth.example.com"
	conf.SessionConfig.CookieConfig.Secret = "SJ9sjDqZTSK0GaL1HLvsJmLvqQqJqdqRqMqTqUqVqWo="
	conf.ClientConfig.ID, conf.ClientConfig.Secret = "id", "secret"
	sp, err := New(conf, nil)
	if err != nil {
		t.Skipf("proxy did not start: %v", err)
	}
	rw := httptest.NewRecorder()
	req := httptest.NewRequest("GET", "http://foo.sso.dev/x", nil)
	req.Header.Set("X-Forwarded-Proto", "https")
	sp.ServeHTTP(rw, req)
	loc := rw.Header().Get("Location")
	if rw.Code != 302 || loc == "" {
		t.Skipf("no sign-in redirect (status %d)", rw.Code)
	}
	if !strings.Contains(loc, "/okta/") {
		t.Errorf("the upstream names provider okta but its sign-in redirect goes to %.80q", loc)
	}
}
