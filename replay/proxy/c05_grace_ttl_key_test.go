package proxy

// Witness replay for configkeys[proxy.TTLConfig] / configkeys[proxy.SessionConfig]: the documented variables reach
// their fields (SESSION_TTL_GRACEPERIOD, SESSION_TTL_LIFETIME, SESSION_TTL_VALID).

import (
	"os"
	"testing"
	"time"
)

func TestVerifReplayTTLVariablesReachTheirFields(t *testing.T) {
	vars := map[string]string{"SESSION_TTL_GRACEPERIOD": "1m", "SESSION_TTL_LIFETIME": "8h", "SESSION_TTL_VALID": "45s"}
	for k, v := range vars {
		old, had := os.LookupEnv(k)
		os.Setenv(k, v)
		defer func(k, old string, had bool) {
			if had {
				os.Setenv(k, old)
			} else {
				os.Unsetenv(k)
			}
		}(k, old, had)
	}
	c, err := LoadConfig()
	if err != nil {
		t.Skip(err)
	}
	ttl := c.SessionConfig.TTLConfig
	if ttl.GracePeriod != time.Minute {
		t.Errorf("SESSION_TTL_GRACEPERIOD=1m gives a grace TTL of %v", ttl.GracePeriod)
	}
	if ttl.Lifetime != 8*time.Hour {
		t.Errorf("SESSION_TTL_LIFETIME=8h gives a lifetime TTL of %v", ttl.Lifetime)
	}
	if ttl.Valid != 45*time.Second {
		t.Errorf("SESSION_TTL_VALID=45s gives a validity TTL of %v", ttl.Valid)
	}
}
