package providers

// Replay for obligation auth/providers.emailFromIDToken/bounds: the solver's model is an id_token
// for which strings.Split(idToken, ".") has a single element (no dot), e.g. "". Indexing jwt[1] panics.

import "testing"

func TestVerifReplayIDTokenWithoutDot(t *testing.T) {
	for _, tok := range []string{"", "x", "eyJhbGciOiJSUzI1NiJ9"} {
		func() {
			defer func() {
				if r := recover(); r != nil {
					t.Errorf("emailFromIDToken(%q) crashed the request: %v", tok, r)
				}
			}()
			if email, err := emailFromIDToken(tok); err == nil {
				t.Errorf("emailFromIDToken(%q) = %q without error", tok, email)
			}
		}()
	}
}
