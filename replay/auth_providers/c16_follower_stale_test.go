package providers

// Replay for obligations (*SingleFlightProvider).{RefreshSessionIfNeeded,ValidateSessionState}/ensures[merged_caller_gets_the_session_updates]
// (known finding K2, authenticator side): the solver's model is a call answered true for which the group ran no
// function (a merged caller). Two overlapping callers refresh the same refresh token: the merged caller is told
// "refreshed" but its own session keeps the old access token and deadline.

import (
	"sync"
	"testing"
	"time"

	"github.com/buzzfeed/sso/internal/pkg/sessions"
)

type verifBlockingProvider struct {
	*TestProvider
	entered chan struct{}
	release chan struct{}
	once    sync.Once
}

func (b *verifBlockingProvider) RefreshSessionIfNeeded(s *sessions.SessionState) (bool, error) {
	b.once.Do(func() { close(b.entered) })
	<-b.release
	s.AccessToken = "new-token"
	s.RefreshDeadline = time.Unix(4102444800, 0)
	return true, nil
}

func TestVerifReplayFollowerSessionNotUpdated(t *testing.T) {
	bp := &verifBlockingProvider{TestProvider: NewTestProvider(nil), entered: make(chan struct{}), release: make(chan struct{})}
	sf := NewSingleFlightProvider(bp)
	leader := &sessions.SessionState{AccessToken: "old-token", RefreshToken: "rt"}
	follower := &sessions.SessionState{AccessToken: "old-token", RefreshToken: "rt"}
	var wg sync.WaitGroup
	var okL, okF bool
	wg.Add(2)
	go func() { defer wg.Done(); okL, _ = sf.RefreshSessionIfNeeded(leader) }()
	<-bp.entered
	go func() { defer wg.Done(); okF, _ = sf.RefreshSessionIfNeeded(follower) }()
	time.Sleep(200 * time.Millisecond) // let the second caller join the in-flight call
	close(bp.release)
	wg.Wait()
	if !okL || leader.AccessToken != "new-token" {
		t.Skipf("executing caller did not run as expected (ok=%v): witness not applicable", okL)
	}
	if okF && follower.AccessToken != "new-token" {
		t.Errorf("merged caller was answered true but its session was not updated: AccessToken %q, RefreshDeadline %v; executing caller's %q", follower.AccessToken, follower.RefreshDeadline, leader.AccessToken)
	}
}
