package providers

// Replay for obligation (*AmazonCognitoProvider).ValidateGroupMembership/invariant-entry[loop2.2]:
// when the directory loop starts, the answer list already holds entries that did not come from the directory.
// Witness (the solver's model made concrete): group1 is cached and its cached member set contains the user, group2 is
// not cached, so the directory is asked — and says the user is in no group. The answer must then be the directory's.

import (
	"encoding/json"
	"net/http"
	"testing"

	"github.com/buzzfeed/sso/internal/pkg/groups"
)

func TestVerifReplayCognitoPartlyCached(t *testing.T) {
	p := newAmazonCognitoProvider(nil, t)
	body, _ := json.Marshal(getCognitoUserProfileResponse{Username: "username"})
	srvURL, server := newAmazonCognitoProviderServer(body, http.StatusOK)
	defer server.Close()
	p.ProfileURL = srvURL
	p.AdminService = &MockCognitoAdminService{Groups: []string{}, UserName: "username"}
	p.GroupsCache = &groups.MockCache{Refreshed: true, ListMembershipsFunc: func(g string) (groups.MemberSet, bool) {
		if g == "group1" {
			return groups.MemberSet{"username": {}}, true // stale cached membership
		}
		return nil, false
	}}
	got, err := p.ValidateGroupMembership("username", []string{"group1", "group2"}, "accessToken")
	if err != nil {
		t.Skipf("directory call failed: %v", err)
	}
	if len(got) != 0 {
		t.Errorf("partly cached question: the directory was asked and answered no groups, but the answer is %v (cached entries mixed in)", got)
	}
	// and when the directory confirms the cached group it must not be listed twice
	p.AdminService = &MockCognitoAdminService{Groups: []string{"group1"}, UserName: "username"}
	got, err = p.ValidateGroupMembership("username", []string{"group1", "group2"}, "accessToken")
	if err == nil && len(got) != 1 {
		t.Errorf("partly cached question: directory says [group1], answer is %v", got)
	}
}
