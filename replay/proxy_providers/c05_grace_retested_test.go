package providers

// Replay for (*proxy/providers.SSOProvider).ValidateSessionState / RefreshSession
// ensures[grace_is_retested_within_the_validation_interval]: whatever an unavailable authenticator says (Retry-After
// included), a grace answer is good for one validation interval only.

import (
	"net/http"
	"net/http/httptest"
	"net/url"
	"testing"
	"time"

	"github.com/buzzfeed/sso/internal/pkg/sessions"
)

func TestVerifReplayGraceRetestedWithinInterval(t *testing.T) {
	for _, status := range []int{429, 503} {
		srv := httptest.NewServer(http.HandlerFunc(func(rw http.ResponseWriter, req *http.Request) {
			rw.Header().Set("Retry-After", "3600")
			rw.WriteHeader(status)
		}))
		u, _ := url.Parse(srv.URL)
		p := NewSSOProvider(&ProviderData{ProviderSlug: "idp", ProviderURL: u, ProviderURLInternal: u,
			SessionValidTTL: time.Minute, GracePeriodTTL: 10 * time.Minute, SessionLifetimeTTL: time.Hour}, nil)
		p.ValidateURL = &url.URL{Scheme: u.Scheme, Host: u.Host, Path: "/validate"}
		p.RefreshURL = &url.URL{Scheme: u.Scheme, Host: u.Host, Path: "/refresh"}
		p.ProfileURL = &url.URL{Scheme: u.Scheme, Host: u.Host, Path: "/profile"}
		s := &sessions.SessionState{AccessToken: "at", RefreshToken: "rt", Email: "u@example.com",
			ValidDeadline: time.Now().Add(-time.Second), RefreshDeadline: time.Now().Add(-time.Second), LifetimeDeadline: time.Now().Add(time.Hour)}
		if p.ValidateSessionState(s, nil) {
			if d := time.Until(s.ValidDeadline); d > time.Minute+2*time.Second {
				t.Errorf("status %d: a grace answer at /validate is trusted for %v (validation interval 1m)", status, d.Round(time.Second))
			}
		}
		if ok, _ := p.RefreshSession(s, nil); ok {
			if d := time.Until(s.RefreshDeadline); d > time.Minute+2*time.Second {
				t.Errorf("status %d: a grace answer at /refresh is trusted for %v (validation interval 1m)", status, d.Round(time.Second))
			}
		}
		srv.Close()
	}
}
