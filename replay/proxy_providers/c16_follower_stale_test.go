package providers

// Replay for obligations (*SingleFlightProvider).{ValidateSessionState,RefreshSession}/ensures[merged_caller_gets_the_session_updates]
// (known finding K2): the solver's model is a call that returns true while the group ran no function for it
// (a follower). Two overlapping callers with the same token: the follower is told "valid" but its session keeps
// the stale deadline — it never receives the update the executing caller's closure applied.

import (
	"net/url"
	"sync"
	"testing"
	"time"

	"github.com/buzzfeed/sso/internal/pkg/sessions"
)

func TestVerifReplayFollowerSessionNotUpdated(t *testing.T) {
	u, _ := url.Parse("http://x")
	tp := NewTestProvider(u, "")
	entered := make(chan struct{})
	release := make(chan struct{})
	future := time.Now().Add(time.Hour).Truncate(time.Second)
	tp.ValidateSessionFunc = func(s *sessions.SessionState, g []string) bool {
		close(entered)
		<-release
		s.ValidDeadline = future
		return true
	}
	sf := NewSingleFlightProvider(tp, nil)
	past := time.Now().Add(-time.Minute)
	leader := &sessions.SessionState{AccessToken: "tok", ValidDeadline: past}
	follower := &sessions.SessionState{AccessToken: "tok", ValidDeadline: past}
	var wg sync.WaitGroup
	var okL, okF bool
	wg.Add(2)
	go func() { defer wg.Done(); okL = sf.ValidateSessionState(leader, nil) }()
	<-entered
	go func() { defer wg.Done(); okF = sf.ValidateSessionState(follower, nil) }()
	time.Sleep(200 * time.Millisecond) // let the follower join the in-flight call
	close(release)
	wg.Wait()
	if !okL || !leader.ValidDeadline.Equal(future) {
		t.Skipf("leader did not run as expected (ok=%v): witness not applicable", okL)
	}
	if okF && !follower.ValidDeadline.Equal(future) {
		t.Errorf("merged caller was answered true but its session was not updated: ValidDeadline still %v, executing caller's is %v", follower.ValidDeadline, leader.ValidDeadline)
	}
}
