package singleflight

// Witness replay for (*pkg/singleflight.Group).Do/ensures[other_keys_stay_registered_*]: whatever happens on other
// keys, a call that is in flight stays registered — a second call for its key joins it.

import (
	"sync/atomic"
	"testing"
	"time"
)

func TestVerifReplayOtherKeysStayRegistered(t *testing.T) {
	var g Group
	var runs int32
	release := make(chan struct{})
	started := make(chan struct{})
	done := make(chan int, 2)
	slow := func() (interface{}, error) {
		if atomic.AddInt32(&runs, 1) == 1 {
			close(started)
		}
		<-release
		return "v", nil
	}
	go func() { _, n, _ := g.Do("slow", slow); done <- n }()
	<-started
	for i := 0; i < 3000; i++ {
		g.Do("other", func() (interface{}, error) { return i, nil })
	}
	go func() { _, n, _ := g.Do("slow", slow); done <- n }()
	time.Sleep(50 * time.Millisecond)
	close(release)
	a, b := <-done, <-done
	if got := atomic.LoadInt32(&runs); got != 1 {
		t.Errorf("the function ran %d times for two overlapping calls with the same key", got)
	}
	if a+b != 1 {
		t.Errorf("the two callers were told %d and %d joined calls (one leader with one follower expected)", a, b)
	}
}
