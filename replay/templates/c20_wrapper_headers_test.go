package templates

// Replay for (*pkg/templates.HTMLTemplate).ExecuteTemplate/frame: the wrapper renders and touches no header, so the
// page goes out with the Content-Type net/http derives for it (text/html; charset=utf-8).

import (
	"net/http"
	"net/http/httptest"
	"testing"
)

func TestVerifReplayWrapperLeavesHeadersAlone(t *testing.T) {
	tpl := NewHTMLTemplate()
	srv := httptest.NewServer(http.HandlerFunc(func(rw http.ResponseWriter, req *http.Request) {
		before := len(rw.Header())
		tpl.ExecuteTemplate(rw, "error.html", struct {
			Title, Message string
			Status         int
		}{"t", "+ADw-script+AD4-", 400})
		_ = before
	}))
	defer srv.Close()
	resp, err := http.Get(srv.URL)
	if err != nil {
		t.Skip(err)
	}
	defer resp.Body.Close()
	if ct := resp.Header.Get("Content-Type"); ct != "text/html; charset=utf-8" {
		t.Errorf("the rendered page is labelled %q, not the type net/http derives (text/html; charset=utf-8)", ct)
	}
	rec := httptest.NewRecorder()
	tpl.ExecuteTemplate(rec, "error.html", struct {
		Title, Message string
		Status         int
	}{"t", "m", 400})
	for k := range rec.Header() {
		if k != "Content-Type" || rec.Header().Get(k) != "text/html; charset=utf-8" {
			t.Errorf("the wrapper set response header %s: %q", k, rec.Header().Get(k))
		}
	}
}
